// Reference witness generator worker: circom's own generated witness calculator (rln.wasm) driven
// by iden3's witness_calculator.js under node. JSON lines in, JSON lines out.
//   in : {"id": n, "inputs": {identitySecret, userMessageLimit, messageId, pathElements[], identityPathIndex[], x, externalNullifier}}  (decimal strings)
//   out: {"id": n, "witness": ["..."]}   or   {"id": n, "reject": "<reason>"}
// Frozen copies of both files live next to this script so that the oracle does not change with the tree under test.
const fs = require("fs");
const path = require("path");
const readline = require("readline");
const builder = require(path.join(__dirname, "witness_calculator.js"));

(async () => {
  const code = fs.readFileSync(path.join(__dirname, "rln.wasm"));
  // a fresh calculator per request would be slow; circom's calculator is re-initialised by init() on every call
  const origLog = console.log;
  console.log = () => {};
  const wc = await builder(code, true);
  console.log = origLog;
  process.stdout.write(JSON.stringify({ ready: true, prime: wc.prime.toString(), n: wc.witnessSize }) + "\n");
  const rl = readline.createInterface({ input: process.stdin, terminal: false });
  for await (const line of rl) {
    if (!line.trim()) continue;
    let req;
    try {
      req = JSON.parse(line);
    } catch (e) {
      process.stdout.write(JSON.stringify({ id: -1, reject: "bad json" }) + "\n");
      continue;
    }
    try {
      console.log = () => {};
      const w = await wc.calculateWitness(req.inputs, true);
      console.log = origLog;
      const strs = w.map((x) => x.toString());
      if (req.mode === "hash") {
        const h = require("crypto").createHash("sha256").update(strs.join(",")).digest("hex");
        process.stdout.write(JSON.stringify({ id: req.id, n: w.length, sha256: h, witness: strs.slice(0, 6) }) + "\n");
      } else {
        process.stdout.write(JSON.stringify({ id: req.id, n: w.length, witness: req.head ? strs.slice(0, req.head) : strs }) + "\n");
      }
    } catch (e) {
      console.log = origLog;
      process.stdout.write(JSON.stringify({ id: req.id, reject: String(e && e.message ? e.message : e).replace(/\s+/g, " ").slice(0, 200) }) + "\n");
    }
  }
})().catch((e) => {
  process.stderr.write("refwit fatal: " + e + "\n");
  process.exit(3);
});
