module.exports = async function builder(code, options) {
  options = options || {};

  let wasmModule;
  try {
    wasmModule = await WebAssembly.compile(code);
  } catch (err) {
    console.log(err);
    console.log(
      "\nTry to run circom --c in order to generate c++ code instead\n"
    );
    throw new Error(err);
  }

  let wc;

  let errStr = "";
  let msgStr = "";

  const instance = await WebAssembly.instantiate(wasmModule, {
    runtime: {
      exceptionHandler: function (code) {
        let err;
        if (code == 1) {
          err = "Signal not found.\n";
        } else if (code == 2) {
          err = "Too many signals set.\n";
        } else if (code == 3) {
          err = "Signal already set.\n";
        } else if (code == 4) {
          err = "Assert Failed.\n";
        } else if (code == 5) {
          err = "Not enough memory.\n";
        } else if (code == 6) {
          err = "Input signal array access exceeds the size.\n";
        } else {
          err = "Unknown error.\n";
        }
        throw new Error(err + errStr);
      },
      printErrorMessage: function () {
        errStr += getMessage() + "\n";
        // console.error(getMessage());
      },
      writeBufferMessage: function () {
        const msg = getMessage();
        // Any calls to `log()` will always end with a `\n`, so that's when we print and reset
        if (msg === "\n") {
          console.log(msgStr);
          msgStr = "";
        } else {
          // If we've buffered other content, put a space in between the items
          if (msgStr !== "") {
            msgStr += " ";
          }
          // Then append the message to the message we are creating
          msgStr += msg;
        }
      },
      showSharedRWMemory: function () {
        printSharedRWMemory();
      },
    },
  });

  const sanityCheck = options;
  //        options &&
  //        (
  //            options.sanityCheck ||
  //            options.logGetSignal ||
  //            options.logSetSignal ||
  //            options.logStartComponent ||
  //            options.logFinishComponent
  //        );

  wc = new WitnessCalculator(instance, sanityCheck);
  return wc;

  function getMessage() {
    var message = "";
    var c = instance.exports.getMessageChar();
    while (c != 0) {
      message += String.fromCharCode(c);
      c = instance.exports.getMessageChar();
    }
    return message;
  }

  function printSharedRWMemory() {
    const shared_rw_memory_size = instance.exports.getFieldNumLen32();
    const arr = new Uint32Array(shared_rw_memory_size);
    for (let j = 0; j < shared_rw_memory_size; j++) {
      arr[shared_rw_memory_size - 1 - j] =
        instance.exports.readSharedRWMemory(j);
    }

    // If we've buffered other content, put a space in between the items
    if (msgStr !== "") {
      msgStr += " ";
    }
    // Then append the value to the message we are creating
    msgStr += fromArray32(arr).toString();
  }
};

class WitnessCalculator {
  constructor(instance, sanityCheck) {
    this.instance = instance;

    this.version = this.instance.exports.getVersion();
    this.n32 = this.instance.exports.getFieldNumLen32();

    this.instance.exports.getRawPrime();
    const arr = new Uint32Array(this.n32);
    for (let i = 0; i < this.n32; i++) {
      arr[this.n32 - 1 - i] = this.instance.exports.readSharedRWMemory(i);
    }
    this.prime = fromArray32(arr);

    this.witnessSize = this.instance.exports.getWitnessSize();

    this.sanityCheck = sanityCheck;
  }

  circom_version() {
    return this.instance.exports.getVersion();
  }

  async _doCalculateWitness(input, sanityCheck) {
    //input is assumed to be a map from signals to arrays of bigints
    this.instance.exports.init(this.sanityCheck || sanityCheck ? 1 : 0);
    const keys = Object.keys(input);
    var input_counter = 0;
    keys.forEach((k) => {
      const h = fnvHash(k);
      const hMSB = parseInt(h.slice(0, 8), 16);
      const hLSB = parseInt(h.slice(8, 16), 16);
      const fArr = flatArray(input[k]);
      let signalSize = this.instance.exports.getInputSignalSize(hMSB, hLSB);
      if (signalSize < 0) {
        throw new Error(`Signal ${k} not found\n`);
      }
      if (fArr.length < signalSize) {
        throw new Error(`Not enough values for input signal ${k}\n`);
      }
      if (fArr.length > signalSize) {
        throw new Error(`Too many values for input signal ${k}\n`);
      }
      for (let i = 0; i < fArr.length; i++) {
        const arrFr = toArray32(BigInt(fArr[i]) % this.prime, this.n32);
        for (let j = 0; j < this.n32; j++) {
          this.instance.exports.writeSharedRWMemory(j, arrFr[this.n32 - 1 - j]);
        }
        try {
          this.instance.exports.setInputSignal(hMSB, hLSB, i);
          input_counter++;
        } catch (err) {
          // console.log(`After adding signal ${i} of ${k}`)
          throw new Error(err);
        }
      }
    });
    if (input_counter < this.instance.exports.getInputSize()) {
      throw new Error(
        `Not all inputs have been set. Only ${input_counter} out of ${this.instance.exports.getInputSize()}`
      );
    }
  }

  async calculateWitness(input, sanityCheck) {
    const w = [];

    await this._doCalculateWitness(input, sanityCheck);

    for (let i = 0; i < this.witnessSize; i++) {
      this.instance.exports.getWitness(i);
      const arr = new Uint32Array(this.n32);
      for (let j = 0; j < this.n32; j++) {
        arr[this.n32 - 1 - j] = this.instance.exports.readSharedRWMemory(j);
      }
      w.push(fromArray32(arr));
    }

    return w;
  }

  async calculateBinWitness(input, sanityCheck) {
    const buff32 = new Uint32Array(this.witnessSize * this.n32);
    const buff = new Uint8Array(buff32.buffer);
    await this._doCalculateWitness(input, sanityCheck);

    for (let i = 0; i < this.witnessSize; i++) {
      this.instance.exports.getWitness(i);
      const pos = i * this.n32;
      for (let j = 0; j < this.n32; j++) {
        buff32[pos + j] = this.instance.exports.readSharedRWMemory(j);
      }
    }

    return buff;
  }

  async calculateWTNSBin(input, sanityCheck) {
    const buff32 = new Uint32Array(this.witnessSize * this.n32 + this.n32 + 11);
    const buff = new Uint8Array(buff32.buffer);
    await this._doCalculateWitness(input, sanityCheck);

    //"wtns"
    buff[0] = "w".charCodeAt(0);
    buff[1] = "t".charCodeAt(0);
    buff[2] = "n".charCodeAt(0);
    buff[3] = "s".charCodeAt(0);

    //version 2
    buff32[1] = 2;

    //number of sections: 2
    buff32[2] = 2;

    //id section 1
    buff32[3] = 1;

    const n8 = this.n32 * 4;
    //id section 1 length in 64bytes
    const idSection1length = 8 + n8;
    const idSection1lengthHex = idSection1length.toString(16);
    buff32[4] = parseInt(idSection1lengthHex.slice(0, 8), 16);
    buff32[5] = parseInt(idSection1lengthHex.slice(8, 16), 16);

    //this.n32
    buff32[6] = n8;

    //prime number
    this.instance.exports.getRawPrime();

    var pos = 7;
    for (let j = 0; j < this.n32; j++) {
      buff32[pos + j] = this.instance.exports.readSharedRWMemory(j);
    }
    pos += this.n32;

    // witness size
    buff32[pos] = this.witnessSize;
    pos++;

    //id section 2
    buff32[pos] = 2;
    pos++;

    // section 2 length
    const idSection2length = n8 * this.witnessSize;
    const idSection2lengthHex = idSection2length.toString(16);
    buff32[pos] = parseInt(idSection2lengthHex.slice(0, 8), 16);
    buff32[pos + 1] = parseInt(idSection2lengthHex.slice(8, 16), 16);

    pos += 2;
    for (let i = 0; i < this.witnessSize; i++) {
      this.instance.exports.getWitness(i);
      for (let j = 0; j < this.n32; j++) {
        buff32[pos + j] = this.instance.exports.readSharedRWMemory(j);
      }
      pos += this.n32;
    }

    return buff;
  }
}

function toArray32(rem, size) {
  const res = []; //new Uint32Array(size); //has no unshift
  const radix = BigInt(0x100000000);
  while (rem) {
    res.unshift(Number(rem % radix));
    rem = rem / radix;
  }
  if (size) {
    var i = size - res.length;
    while (i > 0) {
      res.unshift(0);
      i--;
    }
  }
  return res;
}

function fromArray32(arr) {
  //returns a BigInt
  var res = BigInt(0);
  const radix = BigInt(0x100000000);
  for (let i = 0; i < arr.length; i++) {
    res = res * radix + BigInt(arr[i]);
  }
  return res;
}

function flatArray(a) {
  var res = [];
  fillArray(res, a);
  return res;

  function fillArray(res, a) {
    if (Array.isArray(a)) {
      for (let i = 0; i < a.length; i++) {
        fillArray(res, a[i]);
      }
    } else {
      res.push(a);
    }
  }
}

function fnvHash(str) {
  const uint64_max = BigInt(2) ** BigInt(64);
  let hash = BigInt("0xCBF29CE484222325");
  for (var i = 0; i < str.length; i++) {
    hash ^= BigInt(str[i].charCodeAt());
    hash *= BigInt(0x100000001b3);
    hash %= uint64_max;
  }
  let shash = hash.toString(16);
  let n = 16 - shash.length;
  shash = "0".repeat(n).concat(shash);
  return shash;
}
