//! C17 probe: the same program compiled once per zerokit build configuration. It executes a
//! workload file written by `vcheck` and prints a line-oriented transcript; `vcheck` compares the
//! transcripts of the different builds with one another and with the ideal model.
//!
//!   c17probe produce <workload.json> [witnesses.json]
//!   c17probe verify  <workload.json> <messages.json>

use rln::public::RLN;
use serde_json::Value;
use sha2::{Digest, Sha256};
use std::io::Cursor;

fn hex(b: &[u8]) -> String {
    b.iter().map(|x| format!("{x:02x}")).collect()
}

fn unhex(s: &str) -> Vec<u8> {
    (0..s.len() / 2).map(|i| u8::from_str_radix(&s[2 * i..2 * i + 2], 16).unwrap_or(0)).collect()
}

fn sha(b: &[u8]) -> String {
    hex(&Sha256::digest(b)[..16])
}

fn config_name() -> &'static str {
    if cfg!(feature = "cfg-stateless") {
        "stateless"
    } else if cfg!(feature = "cfg-arkzkey") {
        "arkzkey"
    } else if cfg!(feature = "cfg-fullmerkle") {
        "fullmerkle"
    } else if cfg!(feature = "cfg-default") {
        "default"
    } else {
        "optimal"
    }
}

fn matrices_bytes(m: &ark_relations::r1cs::ConstraintMatrices<ark_bn254::Fr>) -> Vec<u8> {
    use ark_serialize::CanonicalSerialize;
    let mut out = vec![];
    for n in [m.num_instance_variables, m.num_witness_variables, m.num_constraints, m.a_num_non_zero, m.b_num_non_zero, m.c_num_non_zero] {
        out.extend_from_slice(&(n as u64).to_le_bytes());
    }
    for mat in [&m.a, &m.b, &m.c] {
        out.extend_from_slice(&(mat.len() as u64).to_le_bytes());
        for row in mat {
            out.extend_from_slice(&(row.len() as u64).to_le_bytes());
            for (coeff, idx) in row {
                coeff.serialize_compressed(&mut out).unwrap();
                out.extend_from_slice(&(*idx as u64).to_le_bytes());
            }
        }
    }
    out
}

fn key_lines() {
    use ark_serialize::CanonicalSerialize;
    let key = rln::circuit::zkey_from_folder();
    let mut pk = vec![];
    key.0.serialize_uncompressed(&mut pk).unwrap();
    let mut vk = vec![];
    key.0.vk.serialize_uncompressed(&mut vk).unwrap();
    println!("KEY pk={} vk={} matrices={}", sha(&pk), sha(&vk), sha(&matrices_bytes(&key.1)));
    #[cfg(feature = "cfg-arkzkey")]
    {
        // both key files parsed in the same build and compared element by element
        let ark = rln::circuit::read_arkzkey_from_bytes_uncompressed(rln::circuit::ARKZKEY_BYTES).expect("arkzkey");
        let mut rd = Cursor::new(rln::circuit::ZKEY_BYTES);
        let snark = rln::circuit::zkey::read_zkey(&mut rd).expect("zkey");
        let mut diffs = vec![];
        if ark.0 != snark.0 {
            let p = |k: &ark_groth16::ProvingKey<ark_bn254::Bn254>| {
                format!(
                    "vk_equal_fields: a_query {} b_g1_query {} b_g2_query {} h_query {} l_query {}",
                    k.a_query.len(),
                    k.b_g1_query.len(),
                    k.b_g2_query.len(),
                    k.h_query.len(),
                    k.l_query.len()
                )
            };
            diffs.push(format!("proving keys differ (arkzkey: {}; zkey: {})", p(&ark.0), p(&snark.0)));
            if ark.0.vk != snark.0.vk {
                diffs.push("verifying keys differ".into());
            }
            for (name, a, b) in [("a_query", &ark.0.a_query, &snark.0.a_query), ("b_g1_query", &ark.0.b_g1_query, &snark.0.b_g1_query), ("h_query", &ark.0.h_query, &snark.0.h_query), ("l_query", &ark.0.l_query, &snark.0.l_query)] {
                if let Some(i) = a.iter().zip(b.iter()).position(|(x, y)| x != y) {
                    diffs.push(format!("{name}[{i}] differs"));
                }
            }
        }
        let (ma, mb) = (&ark.1, &snark.1);
        if (ma.num_instance_variables, ma.num_witness_variables, ma.num_constraints) != (mb.num_instance_variables, mb.num_witness_variables, mb.num_constraints) {
            diffs.push("matrix dimensions differ".into());
        }
        for (name, a, b) in [("A", &ma.a, &mb.a), ("B", &ma.b, &mb.b), ("C", &ma.c, &mb.c)] {
            if a.len() != b.len() {
                diffs.push(format!("matrix {name}: {} / {} rows", a.len(), b.len()));
            } else if let Some(i) = a.iter().zip(b.iter()).position(|(x, y)| x != y) {
                diffs.push(format!("matrix {name} row {i} differs"));
            }
        }
        let rows = ma.a.len() + ma.b.len() + ma.c.len();
        let entries: usize = [&ma.a, &ma.b, &ma.c].iter().map(|m| m.iter().map(|r| r.len()).sum::<usize>()).sum();
        if diffs.is_empty() {
            println!("KEYCMP equal rows={rows} entries={entries} pk_points={}", ark.0.a_query.len() + ark.0.b_g1_query.len() + ark.0.b_g2_query.len() + ark.0.h_query.len() + ark.0.l_query.len());
        } else {
            println!("KEYCMP differ {}", diffs.join("; "));
        }
    }
}

#[cfg(not(feature = "cfg-stateless"))]
fn new_rln(depth: usize) -> RLN {
    RLN::new(depth, Cursor::new("{}".to_string())).expect("RLN::new")
}

#[cfg(feature = "cfg-stateless")]
fn new_rln(_depth: usize) -> RLN {
    RLN::new().expect("RLN::new")
}

#[cfg(not(feature = "cfg-stateless"))]
fn root_hex(r: &RLN) -> String {
    let mut out = vec![];
    match r.get_root(&mut out) {
        Ok(()) => hex(&out),
        Err(e) => format!("ERR({e})"),
    }
}

/// history + registration of every request's leaf; returns the instance in its final state
#[cfg(not(feature = "cfg-stateless"))]
fn replay(w: &Value, print: bool) -> RLN {
    let depth = w["depth"].as_u64().unwrap() as usize;
    let mut r = new_rln(depth);
    for (k, op) in w["ops"].as_array().unwrap().iter().enumerate() {
        let res = match op["k"].as_str().unwrap() {
            "set" => r.set_leaf(op["i"].as_u64().unwrap() as usize, Cursor::new(unhex(op["v"].as_str().unwrap()))).map_err(|e| e.to_string()),
            "append" => r.set_next_leaf(Cursor::new(unhex(op["v"].as_str().unwrap()))).map_err(|e| e.to_string()),
            "delete" => r.delete_leaf(op["i"].as_u64().unwrap() as usize).map_err(|e| e.to_string()),
            other => Err(format!("unknown op {other}")),
        };
        if print {
            println!("OP {k} {} {}", if res.is_ok() { "ok" } else { "err" }, root_hex(&r));
        }
    }
    if print {
        println!("LEAVES_SET {}", r.leaves_set());
        for p in w["probes"].as_array().unwrap() {
            let i = p.as_u64().unwrap() as usize;
            let mut out = vec![];
            match r.get_proof(i, &mut out) {
                Ok(()) => println!("PROOF {i} {}", hex(&out)),
                Err(_) => println!("PROOF {i} err"),
            }
            let mut leaf = vec![];
            match r.get_leaf(i, &mut leaf) {
                Ok(()) => println!("LEAF {i} {}", hex(&leaf)),
                Err(_) => println!("LEAF {i} err"),
            }
        }
    }
    for (k, q) in w["reqs"].as_array().unwrap().iter().enumerate() {
        let res = r.set_leaf(q["index"].as_u64().unwrap() as usize, Cursor::new(unhex(q["rc"].as_str().unwrap())));
        if print {
            println!("REG {k} {} {}", if res.is_ok() { "ok" } else { "err" }, root_hex(&r));
        }
    }
    r
}

fn produce(w: &Value, witnesses: Option<&Value>) {
    key_lines();
    #[cfg(not(feature = "cfg-stateless"))]
    {
        let _ = witnesses;
        let mut r = replay(w, true);
        for (k, q) in w["reqs"].as_array().unwrap().iter().enumerate() {
            let input = unhex(q["input"].as_str().unwrap());
            match r.get_serialized_rln_witness(Cursor::new(input.clone())) {
                Ok(wb) => println!("WIT {k} {}", hex(&wb)),
                Err(e) => println!("WIT {k} err {e}"),
            }
            let mut out = vec![];
            match r.generate_rln_proof(Cursor::new(input), &mut out) {
                Ok(()) => println!("MSG {k} {}", hex(&out)),
                Err(e) => println!("MSG {k} err {e}"),
            }
        }
    }
    #[cfg(feature = "cfg-stateless")]
    {
        let _ = w;
        let mut r = new_rln(0);
        if let Some(ws) = witnesses {
            for (k, wb) in ws.as_array().unwrap().iter().enumerate() {
                let mut out = vec![];
                match r.generate_rln_proof_with_witness(Cursor::new(unhex(wb.as_str().unwrap())), &mut out) {
                    Ok(()) => println!("MSG {k} {}", hex(&out)),
                    Err(e) => println!("MSG {k} err {e}"),
                }
            }
        }
    }
    println!("END");
}

fn verdict<E>(r: Result<bool, E>) -> &'static str {
    match r {
        Ok(true) => "true",
        Ok(false) => "false",
        Err(_) => "err",
    }
}

fn verify(w: &Value, msgs: &Value) {
    #[cfg(not(feature = "cfg-stateless"))]
    let r = replay(w, false);
    #[cfg(feature = "cfg-stateless")]
    let r = {
        let _ = w;
        new_rln(0)
    };
    for m in msgs["msgs"].as_array().unwrap() {
        let producer = m["producer"].as_str().unwrap();
        let k = m["k"].as_u64().unwrap();
        let msg = unhex(m["msg"].as_str().unwrap());
        let signal = unhex(m["signal"].as_str().unwrap());
        let root = unhex(m["root"].as_str().unwrap());
        let mut full = msg.clone();
        full.extend_from_slice(&(signal.len() as u64).to_le_bytes());
        full.extend_from_slice(&signal);
        let raw = verdict(r.verify(Cursor::new(msg.clone())));
        #[cfg(not(feature = "cfg-stateless"))]
        let tree = verdict(r.verify_rln_proof(Cursor::new(full.clone())));
        #[cfg(feature = "cfg-stateless")]
        let tree = "n/a";
        let roots = verdict(r.verify_with_roots(Cursor::new(full.clone()), Cursor::new(root.clone())));
        let mut wrong = root.clone();
        wrong[0] ^= 1;
        let roots_wrong = verdict(r.verify_with_roots(Cursor::new(full.clone()), Cursor::new(wrong)));
        let mut t = full.clone();
        t[5] ^= 0x40;
        let tampered_proof = verdict(r.verify_with_roots(Cursor::new(t), Cursor::new(root.clone())));
        let mut t = full.clone();
        let n = t.len();
        if signal.is_empty() {
            t.push(1);
            t[288..296].copy_from_slice(&1u64.to_le_bytes());
        } else {
            t[n - 1] ^= 1;
        }
        let tampered_signal = verdict(r.verify_with_roots(Cursor::new(t), Cursor::new(root)));
        println!("V {producer} {k} raw={raw} tree={tree} roots={roots} roots_wrong={roots_wrong} tampered_proof={tampered_proof} tampered_signal={tampered_signal}");
    }
    println!("END");
}

fn main() {
    let args: Vec<String> = std::env::args().collect();
    let load = |p: &str| -> Value { serde_json::from_str(&std::fs::read_to_string(p).expect("read")).expect("json") };
    println!("CONFIG {}", config_name());
    match args.get(1).map(|s| s.as_str()) {
        Some("produce") => {
            let w = load(&args[2]);
            let wit = args.get(3).map(|p| load(p));
            produce(&w, wit.as_ref());
        }
        Some("verify") => verify(&load(&args[2]), &load(&args[3])),
        _ => {
            eprintln!("usage: c17probe produce <workload> [witnesses] | verify <workload> <messages>");
            std::process::exit(2);
        }
    }
}
