#![no_main]
//! coverage-guided mode of property C06: the input is the random stream of the property's own generator
use libfuzzer_sys::fuzz_target;
fuzz_target!(|data: &[u8]| {
    vharness::fuzzing::fuzz_one(&vharness::props::c06::C06, data);
});
