#!/bin/bash
# try_seed.sh <patch.diff> <tier> <ID>...   apply a seeded change to /repo, run the checks, undo it
set -u
P=$1; TIER=$2; shift 2
cd /repo || exit 2
git diff --quiet || { echo "/repo has uncommitted changes"; exit 2; }
git apply "$P" || { echo "patch does not apply"; exit 2; }
trap 'git -C /repo checkout -- .' EXIT
for id in "$@"; do
  s=$(date +%s)
  out=$(cd /verif && VERIF_OUT=/tmp/tryseed ./check $id $TIER 2>/dev/null | grep -v "^KNOWN-FINDING" | grep -E "^(VIOLATION|OK|INCONCLUSIVE|  reason)" | head -3)
  rc=$?
  e=$(date +%s)
  echo "[$id $((e-s))s] $(echo "$out" | tr '\n' ' ' | cut -c1-600)"
done
