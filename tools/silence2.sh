#!/bin/bash
# silence2.sh <out dir> <seeds...> — every quick check on the unchanged tree for several seeds and both
# PRNG families with a binary frozen now (built from the clean tree), so that later edits of the harness
# or patches applied to /repo do not disturb the sweep. Evidence/replays go to <out dir>.
OUT=$1; shift
mkdir -p $OUT/out
git -C /repo diff --quiet || { echo "/repo has uncommitted changes: not starting"; exit 2; }
( cd /verif && ./check setup > $OUT/setup.log 2>&1 ) || { echo "setup failed"; exit 2; }
cp /verif/harness/target/release/vcheck $OUT/vcheck
cd /verif
for seed in "$@"; do
  for rng in chacha xorshift; do
    for id in C01 C02 C03 C04 C05 C06 C07 C08 C09 C10 C11 C12 C13 C14 C15 C16 C17 C18 C19 C20; do
      r=$(VERIF_OUT=$OUT/out VERIF_SEED=$seed VERIF_RNG=$rng $OUT/vcheck run $id quick 2>/dev/null | grep -E "^(VIOLATION|OK|INCONCLUSIVE|  reason)" | tr '\n' ' ' | cut -c1-300)
      echo "seed=$seed rng=$rng $id $r"
    done
  done
done
