#!/opt/veriftools/pyvenv/bin/python3
"""Validate MANIFEST.json and evidence/*.json against the schemas in /root/.vp."""
import json, sys, glob, os
import jsonschema
ok = True
def check(path, schema_path):
    global ok
    try:
        jsonschema.validate(json.load(open(path)), json.load(open(schema_path)))
        print("valid  ", path)
    except Exception as e:
        ok = False
        print("INVALID", path, str(e)[:400])
check('/verif/MANIFEST.json', '/root/.vp/MANIFEST.schema.json')
for f in sorted(glob.glob('/verif/evidence/*.json')):
    check(f, '/root/.vp/EVIDENCE.schema.json')
m = json.load(open('/verif/MANIFEST.json'))
claimed = {c['property_id'] for c in m['checks']}
na = {c['property_id'] for c in m.get('not_applicable', [])}
allp = {json.loads(l)['id'] for l in open('/verif/properties.jsonl')}
if claimed & na or (claimed | na) != allp:
    ok = False; print("INVALID partition: claimed", sorted(claimed), "na", sorted(na))
sys.exit(0 if ok else 1)
