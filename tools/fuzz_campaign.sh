#!/bin/bash
# fuzz_campaign.sh <ID> <runs per process> <processes> [seed]
# Coverage-guided stage of the thorough tier: libFuzzer (cargo-fuzz, nightly) drives the property's
# own generator through proptest's PassThrough RNG; the oracle is the property's own check.
# exit 0 nothing found / 1 violation (VIOLATION line printed, JSON replay written) / 2 stage unavailable
set -u
ID=$1; RUNS=$2; PROCS=$3; SEED=${4:-${VERIF_SEED:-0}}
ROOT=/verif
low=$(echo "$ID" | tr 'A-Z' 'a-z')
T=f_$low
OUT=${VERIF_OUT:-$ROOT}
SAN=none; TD=$ROOT/fuzz/target
[ "$ID" = C11 ] && { SAN=address; TD=$ROOT/fuzz/target-asan; }
[ -f "$ROOT/fuzz/fuzz_targets/$T.rs" ] || { echo "NOTE no fuzz target for $ID"; exit 2; }
export CARGO_NET_OFFLINE=true
# PROCS independent processes already occupy the cores: keep each process's rayon pool small (the
# persistent tree recomputes batches in parallel; 16 processes x 16 workers only fight each other)
export RAYON_NUM_THREADS=${RAYON_NUM_THREADS:-2}
[ -n "${VERIF_FUZZ_NOBUILD:-}" ] || ( cd $ROOT/harness && RUSTFLAGS="--cfg zerokit_verif" cargo +nightly fuzz build --fuzz-dir $ROOT/fuzz --target-dir $TD -s $SAN $T > $ROOT/fuzz/build-$T.log 2>&1 ) || {
  echo "NOTE fuzz stage unavailable for $ID: build failed (see fuzz/build-$T.log)"; tail -5 $ROOT/fuzz/build-$T.log; exit 2; }
BIN=$TD/x86_64-unknown-linux-gnu/release/$T
[ -x "$BIN" ] || { echo "NOTE fuzz binary missing: $BIN"; exit 2; }
WORK=$(mktemp -d /tmp/vfuzz-$low-XXXXXX)
ART=$OUT/fuzz/artifacts/$T; mkdir -p "$ART"
pids=()
for i in $(seq 1 $PROCS); do
  mkdir -p $WORK/corpus-$i
  ( cd $WORK && ASAN_OPTIONS=detect_leaks=0 TMPDIR=$WORK VERIF_OUT=$OUT "$BIN" -runs=$RUNS -seed=$((SEED*1000+i)) -len_control=0 -max_len=3072 \
      -print_final_stats=1 -artifact_prefix=$ART/ $WORK/corpus-$i > $WORK/log-$i.txt 2>&1 ) &
  pids+=($!)
done
crashed=0
for p in "${pids[@]}"; do wait $p || crashed=1; done
execs=$(grep -h "stat::number_of_executed_units" $WORK/log-*.txt | awk '{s+=$2} END{print s+0}')
units=$(grep -h "stat::new_units_added" $WORK/log-*.txt | awk '{s+=$2} END{print s+0}')
cov=$(grep -ho "cov: [0-9]*" $WORK/log-*.txt | awk '{if($2>m)m=$2} END{print m+0}')
rc=0
viol=""
if [ $crashed -ne 0 ]; then
  # a target aborts only after printing its own VIOLATION line (oracle failure) — or crashes for real
  viol=$(grep -h "^VIOLATION property=$ID" $WORK/log-*.txt | head -1)
  if [ -n "$viol" ]; then
    echo "$viol"; grep -h -A1 "^VIOLATION property=$ID" $WORK/log-*.txt | grep "reason:" | head -1
    rc=1
  else
    art=$(ls -t $ART/crash-* $ART/oom-* $ART/timeout-* 2>/dev/null | head -1)
    if [ -n "$art" ] && ls $ART/crash-* >/dev/null 2>&1; then
      echo "VIOLATION property=$ID replay=$art"
      echo "  reason: the fuzz target crashed outside the oracle (memory error or abort inside the code under test); libFuzzer input saved (decode with: vcheck fuzz-decode $ID <file>)"
      grep -h -B2 -A12 "ERROR: \|panicked at" $WORK/log-*.txt | head -40
      rc=1
    else
      echo "NOTE fuzz stage for $ID ended abnormally without a crash artifact (timeout/oom?): inconclusive"; tail -5 $WORK/log-1.txt; rc=2
    fi
  fi
fi
python3 - "$OUT/evidence/$ID.json" "$execs" "$units" "$cov" "$PROCS" "$RUNS" "$SEED" "$rc" "$SAN" <<'PY'
import json,sys
p,execs,units,cov,procs,runs,seed,rc,san=sys.argv[1:10]
try:
    e=json.load(open(p))
except Exception:
    sys.exit(0)
e.setdefault("coverage",{})["fuzz_stage"]={
  "engine":"libFuzzer via cargo-fuzz (nightly); the input bytes are the random stream of the property's own proptest strategy (PassThrough RNG), the oracle is the property's own check",
  "processes":int(procs),"runs_per_process":int(runs),"executions":int(execs),"new_corpus_units":int(units),
  "max_edges_covered":int(cov),"sanitizer":san,"seed_base":int(seed),"violations":1 if rc=="1" else 0}
if rc=="1":
    e["violations"]=int(e.get("violations",0))+1
json.dump(e,open(p,"w"),indent=2)
PY
echo "FUZZ property=$ID target=$T processes=$PROCS executions=$execs new_units=$units edges=$cov rc=$rc"
# scratch directories of the target processes (named after their pids)
rm -rf $WORK /tmp/vfuzz-$ID-[0-9]*
exit $rc
