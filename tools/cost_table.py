#!/usr/bin/env python3
"""cost_table.py — prints the §4 table of DESIGN.md from the committed quick-tier evidence files."""
import json
print("| check | cases | evaluations | distinct non-trivial | wall s |\n|---|---|---|---|---|")
for k in range(1, 21):
    pid = f"C{k:02d}"
    e = json.load(open(f"/verif/evidence/{pid}.json"))
    c = e["coverage"]
    print(f"| {pid} | {c['cases_generated']} | {c['evaluations']} | {c['distinct_nontrivial']} | {e['wall_s']:.0f} |")
