#!/bin/bash
# confirm_seed.sh <worktree> <variant dir (seeded/A)> <demo file> <dest dir for demo (rln/tests|utils/tests)> <pkg>
# Confirms in the scratch worktree: patch applies, project compiles, existing tests pass with it,
# the demo fails with it and passes without it. Writes confirm.log next to the patch.
set -u
WT=$1; V=$2; DEMO=$3; DEST=$4; PKG=$5
cd "$WT" || exit 2
export CARGO_TARGET_DIR=$WT/target CARGO_NET_OFFLINE=true
LOG=$WT/$V/confirm.log; : > "$LOG"
git checkout -q -- . ; 
name=$(basename "$DEMO" .rs)
cp "$WT/$V/$DEMO" "$DEST/$name.rs"
echo "== demo WITHOUT patch" >> "$LOG"
cargo test --offline -p $PKG --test $name >> "$LOG" 2>&1; r0=$?
echo "demo_without_patch_rc=$r0" >> "$LOG"
git apply "$V/patch.diff" || { echo "patch does not apply" >> "$LOG"; exit 2; }
echo "== demo WITH patch" >> "$LOG"
cargo test --offline -p $PKG --test $name >> "$LOG" 2>&1; r1=$?
echo "demo_with_patch_rc=$r1" >> "$LOG"
rm -f "$DEST/$name.rs"
echo "== existing tests WITH patch" >> "$LOG"
cargo test --offline -p zerokit_utils >> "$LOG" 2>&1; t1=$?
cargo test --offline -p rln --lib --tests -- --skip test_groth16_proofs_performance_ffi >> "$LOG" 2>&1; t2=$?
echo "existing_utils_rc=$t1 existing_rln_rc=$t2" >> "$LOG"
git checkout -q -- .
echo "SUMMARY $WT/$V demo_without=$r0 demo_with=$r1 utils=$t1 rln=$t2"
