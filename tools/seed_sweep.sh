#!/bin/bash
# seed_sweep.sh [name-prefix] — every seeded change against the quick check of the property it was
# written for (first entry of caught_by), with the saved regress replays switched off, so that the
# result says what the generators find on their own. Prints one line per seed; /repo is restored
# after each.
set -u
cd /repo && git diff --quiet || { echo "/repo has uncommitted changes"; exit 2; }
ok=0; miss=0; inc=0
for d in /verif/seeded/${1:-}*/; do
  name=$(basename "$d")
  first=$(python3 -c "import json;m=json.load(open('$d/meta.json'));c=m['checks_run_against_it']['caught_by'];print(c[0] if c else m['property'])")
  git -C /repo apply "$d/patch.diff" || { echo "$name: PATCH DOES NOT APPLY"; miss=$((miss+1)); continue; }
  out=$(cd /verif && VERIF_NO_REGRESS=1 VERIF_OUT=/tmp/seedsweep ./check $first quick 2>/dev/null | grep -E "^(VIOLATION|OK|INCONCLUSIVE)" | head -1)
  git -C /repo checkout -- .
  case "$out" in
    VIOLATION*) ok=$((ok+1)); echo "$name: caught by $first" ;;
    INCONCLUSIVE*) inc=$((inc+1)); echo "$name: INCONCLUSIVE in $first ($out)" ;;
    *) miss=$((miss+1)); echo "$name: NOT CAUGHT by $first ($out)" ;;
  esac
done
echo "SWEEP caught=$ok inconclusive=$inc missed=$miss"
