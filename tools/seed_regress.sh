#!/bin/bash
# seed_regress.sh [name-prefix] — for every seeded change: apply it, run the quick check of its
# property, and keep the (shrunk) replay that exposes it as regress/<ID>/seed-<name>.json. On the
# unchanged tree these replays pass; they make the detection of a re-introduced defect a matter of
# seconds and independent of the generator. /repo is restored after every step.
set -u
cd /repo && git diff --quiet || { echo "/repo has uncommitted changes"; exit 2; }
for d in /verif/seeded/${1:-}*/; do
  name=$(basename "$d")
  id=$(python3 -c "import json;print(json.load(open('$d/meta.json'))['property'])")
  first=$(python3 -c "import json;m=json.load(open('$d/meta.json'));c=m['checks_run_against_it']['caught_by'];print(c[0] if c else m['property'])")
  [ -f /verif/regress/$first/seed-$name.json ] && continue
  git -C /repo apply "$d/patch.diff" || { echo "$name: patch does not apply"; continue; }
  out=$(cd /verif && VERIF_OUT=/tmp/seedreg ./check $first quick 2>/dev/null | grep "^VIOLATION" | head -1)
  git -C /repo checkout -- .
  rp=$(echo "$out" | sed -n 's/.*replay=\(.*\)$/\1/p')
  if [ -n "$rp" ] && [ -f "$rp" ] && python3 -c "import json,sys;d=json.load(open('$rp'));sys.exit(0 if 'case' in d else 1)" 2>/dev/null; then
    mkdir -p /verif/regress/$first
    cp "$rp" /verif/regress/$first/seed-$name.json
    echo "$name -> regress/$first/seed-$name.json"
  else
    echo "$name: no case replay ($out)"
  fi
done
