#!/usr/bin/env python3
"""thorough_table.py <log>... — rows of the thorough-results table in DESIGN §4 from thorough_bg-style logs (later files win)."""
import re, sys
r, fz = {}, {}
for path in sys.argv[1:]:
    try:
        lines = open(path).read().splitlines()
    except OSError:
        continue
    for l in lines:
        m = re.match(r'(C\d\d) thorough rc=0 (\d+)s OK .*cases=(\d+) evaluations=(\d+) distinct_nontrivial=(\d+)', l)
        if m:
            r[m.group(1)] = (m.group(3), m.group(4), m.group(5), m.group(2))
        m = re.match(r'(C\d\d) fuzz rc=0 (\d+)s FUZZ .*executions=(\d+) new_units=(\d+) edges=(\d+)', l)
        if m:
            fz[m.group(1)] = f"{m.group(3)} / {m.group(4)} / {m.group(5)}"
for k in sorted(r):
    c = r[k]
    print(f"| {k} | {c[0]} | {c[1]} | {c[2]} | {c[3]} | {fz.get(k, '—')} |")
