#!/usr/bin/env python3
"""Generates MANIFEST.json from the table below (single source of truth for the interface)."""
import json
HOOK_COMMITS = []  # filled in when hook commits exist in /repo
checks = {}
def add(pid, level, text, note, technique, design_ref, thorough=True):
    checks[pid] = {
        "property_id": pid,
        "quick_cmd": f"./check {pid} quick",
        **({"thorough_cmd": f"./check {pid} thorough"} if thorough else {}),
        "evidence_file": f"/verif/evidence/{pid}.json",
        "replay_cmd_template": f"./check {pid} --replay {{path}}",
        "engine": "vharness",
        "level_claimed": {"category": level, "text": text, "design_ref": design_ref},
        "level_note": note,
        "technique": technique,
    }

add("C09", "exploration",
    "Generated vectors in Fr^n (n=1..8) and byte strings (Keccak block-edge and long lengths) are hashed through the typed, byte-level and FFI entry points and compared with an independent BigUint Poseidon (frozen circomlib constants) and an own Keccak sponge; plus concurrent-purity run. Sampling, not proof: a defect confined to a single input value outside the boundary classes can be missed.",
    "Trusted: frozen published Poseidon constants + circomlibjs known answers; RustCrypto keccak::f1600 + known answers; arkworks byte<->field conversions.",
    "property-based differential testing against independent reference implementations (proptest)", "DESIGN.md#c09")
add("C14", "exploration",
    "Generated seeds (all Keccak block-edge lengths, long), seed pairs with a single difference, and unseeded invocations; every entry point (typed, RLN byte API, FFI) is compared with an independent derivation ChaCha20(Keccak_ref(seed)) -> documented field sampling -> reference Poseidon; relations, canonicity, distinctness and 16-thread reproducibility are asserted; documented seeds give the documented identities.",
    "Trusted: rand_chacha's ChaCha20 stream; the BigUint mirror of arkworks' field sampling; reference Poseidon/Keccak (self-tested).",
    "property-based testing with an independent reference derivation + metamorphic seed pairs (proptest)", "DESIGN.md#c14")

ALL = [f"C{i:02d}" for i in range(1, 21)]
PENDING_REASON = "check not built yet in this revision of /verif (planned, see DESIGN.md section 2); not claimed until its machinery exists"
manifest = {
    "version": 1,
    "setup_cmd": "cd /verif/harness && CARGO_NET_OFFLINE=true cargo build --release --quiet",
    "hooks": {
        "guard": "--cfg zerokit_verif",
        "enable": "RUSTFLAGS/--cfg zerokit_verif via /verif/harness/.cargo/config.toml ([build] rustflags) when the harness builds /repo/rln and /repo/utils as path dependencies",
        "baseline_off_cmd": "cd /repo && cargo test --workspace --no-fail-fast --offline",
        "source_commits": HOOK_COMMITS,
        "add_only": True,
    },
    "engines": [
        {"name": "vharness", "path": "/verif/harness", "serves_properties": sorted(checks),
         "kind_free_text": "Rust crate: proptest TestRunner driven from a binary (fixed seeds, sharded), independent reference models, replay files; links /repo/rln and /repo/utils by path so every run rebuilds from the working tree"},
    ],
    "checks": [checks[k] for k in sorted(checks)],
    "not_applicable": [{"property_id": p, "reason": PENDING_REASON} for p in ALL if p not in checks],
    "notes": "exit codes: 0 held, 1 violation (VIOLATION line + replay file), 2 inconclusive/tool failure. KNOWN_FINDINGS.txt lists recorded defects (KNOWN-FINDING lines, exit stays 0).",
}
json.dump(manifest, open('/verif/MANIFEST.json', 'w'), indent=1)
print("wrote MANIFEST.json with", len(checks), "checks")
