#!/usr/bin/env python3
"""Generates MANIFEST.json from the table below (single source of truth for the interface)."""
import json
HOOK_COMMITS = ["448eaea", "f23b98f", "7982710"]  # filled in when hook commits exist in /repo
checks = {}
# additions of the last seeded-change rounds (DESIGN section 9, rounds 3 and 4)
ADDENDA = {
    "C01": "External witness vectors are written with canonical, balanced and negative entries; one case in five proves on a persistent tree re-created from its location, one in six on an instance built from a second valid key file; histories contain requests the tree must refuse and a contained failure on another instance; a quarter of the cases verify on a second thread of the caller.",
    "C02": "Inputs cut after the values / after the length field / one byte short are generated here as well; the unmodified message is shown to a second verifier in the same process that holds another verification key; a quarter of the cases verify on a second thread of the caller.",
    "C03": "Messages carry x as zerokit's own signal hash computes it; two different signals giving one x is reported; 32-byte signal pairs congruent modulo p are generated.",
    "C04": "Fixed part: the circuit's own witness vector written canonical / balanced / negative goes through generate_proof_with_witness and must verify for the formulas' values; one request proved from tree state through each writer behaviour; the circuit is also evaluated from a buffer that held a sibling graph just before.",
    "C05": "Predecessors of an evaluation include an evaluation handed a damaged graph file (contained) and a same-length sibling graph loaded into the same caller buffer.",
    "C09": "Byte strings include lengths 2^k-1 / 2^k / 2^k+1 up to 2^17 (2^20 thorough); outputs handed out through the C interface are re-read after later calls.",
    "C10": "Streams of valid and refused proving requests over the three entries into one writer (once per writer behaviour) must consist of exactly the documented records; bytes of unseeded identities are checked through the documented relations.",
    "C11": "Half of the histories let a second long-lived thread of the caller make the state reads, the calls, or both in alternation.",
    "C12": "After Err nothing may have reached the caller's writer; one case in six runs on an instance built from a second valid key file; histories contain refused tree requests and a contained failure on another instance.",
    "C14": "Identities handed out through the C interface are re-read after later calls.",
    "C17": "Probes include the first two positions outside the tree (every build must refuse them without crashing).",
    "C18": "Also: long-lived reader threads behind the C interface after writes by another thread; witness evaluation on intact and damaged graph files among the shared calls; instances created from a second key file by several threads at once; creating an instance of another height on a used location must return within 60 s (else exit 2).",
    "C20": "One case in eight first hands calc_witness a damaged copy of the container (contained).",
    "C06": "A quarter of the histories have the state read back by a second long-lived thread of the caller.",
    "C08": "A quarter of the histories have the state read back by a second long-lived thread of the caller.",
    "C15": "A quarter of the histories have the state read back by a second long-lived thread of the caller.",
    "C13": "A quarter of the cases verify on a second thread of the caller.",
}


def add(pid, level, text, note, technique, design_ref, thorough=True):
    if pid in ADDENDA:
        text = text + " " + ADDENDA[pid]
    checks[pid] = {
        "property_id": pid,
        "quick_cmd": f"./check {pid} quick",
        **({"thorough_cmd": f"./check {pid} thorough"} if thorough else {}),
        "evidence_file": f"/verif/evidence/{pid}.json",
        "replay_cmd_template": f"./check {pid} --replay {{path}}",
        "engine": "vharness",
        "level_claimed": {"category": level, "text": text, "design_ref": design_ref},
        "level_note": note,
        "technique": technique,
    }

add("C09", "exploration",
    "Generated vectors in Fr^n (n=1..8) and byte strings (Keccak block-edge and long lengths) are hashed through the typed, byte-level and FFI entry points and compared with an independent BigUint Poseidon (frozen circomlib constants) and an own Keccak sponge; plus concurrent-purity run. Sampling, not proof: a defect confined to a single input value outside the boundary classes can be missed. Related inputs (equal length, one byte / element changed) are hashed back to back on one thread in the order s, s', s, s'.",
    "Trusted: frozen published Poseidon constants + circomlibjs known answers; RustCrypto keccak::f1600 + known answers; arkworks byte<->field conversions.",
    "property-based differential testing against independent reference implementations (proptest)", "DESIGN.md#c09")
add("C14", "exploration",
    "Generated seeds (all Keccak block-edge lengths, long), seed pairs with a single difference, and unseeded invocations; every entry point (typed, RLN byte API, FFI) is compared with an independent derivation ChaCha20(Keccak_ref(seed)) -> documented field sampling -> reference Poseidon; relations, canonicity, distinctness and 16-thread reproducibility are asserted; documented seeds give the documented identities.",
    "Trusted: rand_chacha's ChaCha20 stream; the BigUint mirror of arkworks' field sampling; reference Poseidon/Keccak (self-tested).",
    "property-based testing with an independent reference derivation + metamorphic seed pairs (proptest)", "DESIGN.md#c14")

TREE_NOTE = "Trusted: the ideal model (sparse array + pairwise fold, no incremental logic) and the tree's own pair hash (judged by C09). Known-finding classes (KNOWN_FINDINGS.txt) are skipped per backend before the code is touched and counted in coverage.excluded_known."
add("C06", "exploration",
    "Model-based stateful testing: generated histories over {set, delete, append, set_range, reset} with boundary positions (mark, mark±1, cap-1, cap, cap+1, usize::MAX) at depth 1..6 (every leaf, every subtree root, root and leaves_set observed after every step) and 10/20 (probes), on FullMerkleTree, OptimalMerkleTree, PmTree and the RLN byte API, each against its own ideal array-of-leaves model; rejected operations must change nothing. Sampling of histories, not exhaustive.",
    TREE_NOTE, "stateful model-based property testing (proptest histories + ideal-tree oracle)", "DESIGN.md#c06")
add("C07", "exploration",
    "For generated reachable states (histories incl. deletes, range writes, batches) and all/sampled positions: proof shape, LSB-first bits and siblings equal the ideal tree's, root recomputation and verify accept the stored leaf and not a different one, and every single sibling alteration / direction-bit flip (where the children differ) is not accepted, per backend; RLN::get_proof bytes decoded with an independent codec. Up to four watched positions are re-queried after every step of the history; every third persistent-backend case is repeated on a non-temporary tree with close + reopen steps.",
    TREE_NOTE + " Collision resistance of the pair hash assumed for the negative half. PmTree proofs are assembled through the cfg(zerokit_verif) hook PmTreeProof::verif_from_parts.", "stateful model-based property testing + mutation of proofs (metamorphic)", "DESIGN.md#c07")
add("C08", "exploration",
    "Generated reachable state + 1..3 batch requests from forced shape classes (write-only, remove-only, removals before/inside/after/interleaved, unsorted, duplicates, empty, start at mark/cap/usize::MAX, removal>=cap, batch initialisation incl. over-capacity) through trait override_range on three backends and RLN::atomic_operation/set_leaves_from/init_tree_with_leaves; outcome must be (Ok and every leaf/subtree root/root/leaves_set equal to the model) or (Err and everything unchanged); panics are violations. Every third persistent-backend case is repeated on a tree that is flushed, dropped and reopened before the first batch; range writes include 257..2000 leaves, after which every position and level is observed.",
    TREE_NOTE, "stateful model-based property testing with shape-class generators", "DESIGN.md#c08")
add("C15", "exploration",
    "Generated histories over every mutating operation plus compute_root and flush+drop+reopen of a non-temporary persistent tree; after every step get_empty_leaves_indices() (trait and RLN bytes) must equal the model's ascending list of never-written or removed positions below the mark, per backend.",
    TREE_NOTE, "stateful model-based property testing (flag model)", "DESIGN.md#c15")

add("C19", "exploration",
    "Every operator x every ordered operand pair of the property's boundary grid is enumerated (quick: 55-value sub-grid; thorough: the full 748-value grid, exhaustive for the grid) on both the Montgomery and the integer evaluator, plus generated boundary-weighted/uniform operands, perturbations, small and negative shift counts; results must equal an independent BigUint transcription of circom's operator semantics and be canonical; panics are violations. Exhaustive on the grid, sampled elsewhere.",
    "Trusted: circom_ops.rs as a faithful transcription of circom's documented semantics (DESIGN Appendix A); arkworks/ruint conversions.",
    "exhaustive grid enumeration + property-based differential testing against a reference operator model", "DESIGN.md#c19")
add("C20", "exploration",
    "Random well-formed DAGs (1..400 nodes, all supported node kinds, backward references, leading and scattered Input nodes, declared input layouts with gaps, repeated outputs) with boundary-weighted inputs: graph::evaluate and calc_witness on the serialised graph must equal a node-by-node BigUint interpretation; serialize/deserialize must return an equal graph, signal list and input map; named inputs supplied in generated orders. The stored graph is evaluated with a second input vector and with the first one again.",
    "Trusted: the C19 operator oracle; the reference interpreter (a 15-line loop).",
    "grammar-based program generation + differential testing against a reference interpreter + round-trip", "DESIGN.md#c20")

add("C03", "exploration",
    "Generated (secret, external nullifier, message id, two signals) with five forced variants (recoverable pair, identical shares, equal x / different y, different external nullifier, different message id), messages assembled from zerokit's own proof values with and without the signal tail, both argument orders; oracle: reference nullifier H(H(s,e,m)) equality relation, recovered bytes == secret, empty result across epochs, error/empty (never a panic) on degenerate pairs; plus real generate_rln_proof message pairs.",
    "Trusted: reference Poseidon/Keccak (self-tested); Keccak collision resistance.",
    "property-based testing with an algebraic inverse oracle (share interpolation) + forced degenerate classes", "DESIGN.md#c03")
add("C04", "exploration",
    "Generated circuit-accepted witnesses (boundary field values, direction-bit patterns incl. high levels) with a three-way comparison: proof_values_from_witness == BigUint RLN formulas over the reference Poseidon == positions 1..5 of the bundled graph's witness vector. The published bytes (serialize_proof_values) are compared with the formulas' values in the documented layout, and 40% of the cases are followed back to back on the same thread by related witnesses (another message id / x / external nullifier / secret) and by the first one again.",
    "Trusted: reference Poseidon (frozen circomlib constants + known answers).",
    "property-based differential testing (three-way: native formulas / reference model / circuit witness)", "DESIGN.md#c04")
add("C10", "exploration",
    "Generated values of every encodable type; zerokit encoder vs an independent encoder, zerokit decoder on independent encodings, independent decoder on zerokit encodings, JSON / byte->JSON->byte round trips, bigint-JSON decimal strings; every truncation and 1..40-byte extension of three witness encodings (exhaustive) plus one generated truncation/extension per generated witness must not decode. Proving requests encoded by the independent encoder (any signal length incl. empty) are decoded by proof_inputs_to_rln_witness and compared; size classes up to 3000 elements / 70000 bytes.",
    "Trusted: codec_ref.rs written from the documented layouts (shares no code with rln::utils).",
    "round-trip and differential property testing against an independent codec", "DESIGN.md#c10")

PIPE_NOTE = "Trusted: reference Poseidon/Keccak (self-tested), the ideal tree model, the independent codec; Groth16 soundness (a mutated proof/value or an unsatisfied witness does not verify)."
add("C01", "exploration",
    "Generated (secret, index incl. the right half and both ends, limit incl. 1 and 2^16, message id incl. 0 and limit-1, external nullifier, signal incl. empty/long) x generated tree histories around the prover's leaf x four proving entry points (tree state, supplied witness, raw prove with an independently assembled witness, externally computed witness vector from circom's own generator); every message must be accepted by verify, verify_rln_proof and verify_with_roots ([root], [r1,root,r2], empty set) and carry exactly the model's root/x/y/nullifier. Each case costs one Groth16 proof, so the sample is hundreds (quick) to thousands (thorough) of points, weighted to the regions the suite never reaches. Histories also contain reads of the prover's own path and removal-only batches over other members; 4 in 9 cases prove a second related request on the same instance.",
    PIPE_NOTE + " Entry point 4 needs node (refwit.js); without it the check exits 2.", "property-based testing of the prove/verify round trip against an independent value oracle", "DESIGN.md#c01")
add("C02", "exploration",
    "Pool of accepted messages x field-level modifications (each public value +-1 / swapped / zero / random / taken from another message, every proof bit, signal and declared-length changes, root sets with/without the root and near-misses) on all three verifiers, plus verifier-tree changes after proving and restoration; an independent acceptability predicate (byte identity of proof+values, Keccak_ref(signal)=x, root condition) must coincide with the verdict in both directions. Root sets also consist of distinguished values (zero entries, the empty tree's root, p-1, 1) and of hundreds of members; generated sequences of changes to the verifier's own tree after proving are judged after every step (accepted exactly when the ideal tree's root equals the message's root).",
    PIPE_NOTE, "metamorphic / mutation-based property testing with an independent acceptance predicate", "DESIGN.md#c02")
add("C05", "exploration",
    "Generated 46-element input assignments (limb-boundary, near-p, near-p/2, boundary-weighted and uniform values; messageId/limit inside and around the circuit's range) evaluated by zerokit's graph evaluator and by circom's own generated witness calculator (frozen rln.wasm + witness_calculator.js under node): all 5844 signals must be equal for every assignment the reference accepts; repeated evaluation and generated orders of the named inputs must not matter. 40% of the cases are preceded on the same thread by a valid evaluation of a related assignment and by rejected evaluations carrying the case's values plus one malformed signal.",
    "Trusted: node 20 + the frozen reference generator in /verif/refwit (the generator the property names). Exit 2 if node is unavailable.", "differential property testing against the reference witness generator", "DESIGN.md#c05")
add("C12", "exploration",
    "Generated proving requests, valid and invalid by class (mid = limit, mid > limit, mid or limit-mid outside the 16-bit range, limit 0, mid p-1, index >= capacity / usize::MAX, path length 0/1/19/21, non-binary direction values, mismatching vector lengths, truncation at any byte, trailing bytes, declared signal length longer/shorter/huge, random bytes) on generate_rln_proof, generate_rln_proof_with_witness and prove; outcome must be Err, or Ok with a message that verification accepts; panics are violations; valid requests must succeed. The reference generator labels each witness-level request satisfiable/unsatisfiable. A fixed sweep runs every invalid class (34 representatives) on each of the three entry points before the generated part; after every third invalid request the plain valid request must still succeed and verify on the same instance.",
    PIPE_NOTE, "property-based robustness testing with class-based invalid-input generators and a verify-after-prove oracle", "DESIGN.md#c12")
add("C13", "exploration",
    "Byte strings derived from accepted messages for verify, verify_rln_proof, verify_with_roots (both buffers) and recover_id_secret (both buffers): every truncation length of one message (enumerated) and generated truncations of others, inconsistent/huge declared signal lengths, random field content, random strings, single bit flips, trailing bytes, arbitrary root buffers, and every v+k*p alias of every public value; never a panic, true only for the canonical bytes of an accepted message (independent predicate), recovery output empty or one canonical element. Root buffers also consist of all-zero / all-0xff entries with partial tails; for recovery every altered message is also paired, in both orders, with the unaltered message it was derived from.",
    PIPE_NOTE, "mutation-based fuzzing from golden messages with an independent acceptance predicate (proptest; libFuzzer target planned for the thorough tier)", "DESIGN.md#c13")

add("C16", "fault_enumeration",
    "Generated histories over {set, delete, append, set_range, batch, set_metadata, flush, flush+drop+reopen} x storage configuration (cache size, flush period, mode, compression, path shape) x API surface (PmTree trait / RLN byte API) at depth 3..6, 10 (20 in thorough). No-fault run: every observation equals the ideal model after every step and after each reopen, and the reopened tree keeps behaving like the model. Fault enumeration: the history is re-run with the storage-adapter hook failing storage operation k+1, for every k the history performs (all positions when K <= 48 quick / 400 thorough, stratified otherwise), one-shot and sticky: the call in which the fault fires must return Err, and after flush+reopen all acknowledged leaves/leaf count/metadata are present. Crash points: a child process abort()s inside storage operation k; after reopening, everything acknowledged by the last successful flush is present. At every other one-shot fault position the identical request is retried (appends excepted); an acknowledged retry counts as applied and the reopened tree must then equal the ideal tree completely.",
    "Trusted: the ideal tree model; the hook fires at the adapter boundary (SledDB::put/put_batch/close), so error mapping inside those three functions below the hook and failures inside sled are not exercised; crash = process abort (not power loss). After a failed request only leaves, leaf count and metadata are constrained, not the root.",
    "stateful model-based property testing with storage fault injection at every position and process-abort crash points", "DESIGN.md#c16")

add("C11", "exploration",
    "Lockstep differential testing of the two API surfaces: one generated call history (whole extern \"C\" surface, valid and malformed buffers, boundary indices, constructors, sequential and indexed batches, proofs at depth 20) is executed on instance A only through rln::ffi (called in-process with real Buffer structs / raw pointers) and on instance B only through rln::public::RLN; per call flag == is_ok, output bytes equal (randomised outputs: same length and public values, cross-verified), failed calls leave out-parameters and state untouched; after every call root, leaf count, probed leaves, metadata and a membership proof read through the FFI equal those read through the Rust API. Half of the histories start from a context that already carries metadata; set_tree keeps the current height half of the time.",
    "Trusted: nothing beyond the Rust API itself (it is the reference for this property). Inputs on which the Rust API panics are outside the quantifier: the history ends there and the class is counted. A panic inside an extern \"C\" function aborts the process; a SIGABRT handler reports it as a violation with the unshrunk in-flight case.",
    "stateful differential (lockstep) property testing of two API surfaces", "DESIGN.md#c11")

add("C18", "exploration",
    "Worker-pool sizes: generated sequential workloads (parallel batch recomputation on the persistent tree at depth 10/20, full witnesses, witness-map H vectors, Groth16 proofs with fixed blinding so that proof bytes are comparable, proof values, public-API prove+verify, verdicts on golden and tampered messages) run in child processes under RAYON_NUM_THREADS = 1, 2, 4, 16 with transcripts compared line by line. Sharing: one shared instance, 2/4/16 threads released together with generated read-only call lists and jitter, each result compared with the same call made sequentially; the same in fresh processes where the lazily initialised globals are first touched concurrently. Re-creation: a persistent instance is dropped and re-created up to 50 times in a row under a time bound. Schedules are sampled, not enumerated. The sequential reference is computed under a lock on a separate long-lived instance; half of the Shared / Burst cases run on an instance created for the case (first touch happens concurrently); Burst cases repeat one call per thread up to 6000 times.",
    "Interleavings are whatever the OS scheduler and the jitter produce: a race needing one specific interleaving inside rayon or sled can be missed (this technique does not own their schedulers). The bounded-time clause is checked with a watchdog whose expiry is reported as exit 2 (inconclusive), never as a violation.",
    "differential testing across worker-pool sizes (child processes) + concurrent-vs-sequential comparison on a shared instance with generated schedules", "DESIGN.md#c18")

add("C17", "exploration",
    "One probe program is compiled from /repo's working tree once per build configuration (default/persistent tree, fullmerkletree, no-default/optimal tree, arkzkey, stateless). A generated workload (history of single-leaf writes, appends, deletions at depth 20; probe positions; proving requests) is executed by every build: roots after every step, leaf count, leaves, membership paths, exported witnesses are compared across the stateful builds and with the ideal tree model; message values with the RLN formulas; proving-key / verifying-key / constraint-matrix digests across all builds, and inside the arkzkey build both key files are parsed and compared element by element (exhaustive over the two files); every message of every producer (incl. the stateless prover) is verified by every build (raw, own tree, producer's root, negative controls). A configuration whose zerokit sources do not compile is reported as a violation. Histories include deletions at leaf count-1 / leaf count / leaf count+1.",
    "Trusted: the ideal tree model and the RLN formulas (self-tested reference Poseidon/Keccak); cargo feature unification as performed for a downstream crate that selects the features (the probe depends on rln with default-features = false and adds features per configuration, like rln-cli does). Batch shapes are out of scope here (C06/C08).",
    "differential testing across build configurations (N builds of one generated workload, transcripts compared with each other and with a reference model)", "DESIGN.md#c17")

ALL = [f"C{i:02d}" for i in range(1, 21)]
PENDING_REASON = "check not built yet in this revision of /verif (planned, see DESIGN.md section 2); not claimed until its machinery exists"
manifest = {
    "version": 1,
    "setup_cmd": "cd /verif && ./check setup",
    "hooks": {
        "guard": "--cfg zerokit_verif",
        "enable": "RUSTFLAGS/--cfg zerokit_verif via /verif/harness/.cargo/config.toml ([build] rustflags) when the harness builds /repo/rln and /repo/utils as path dependencies",
        "baseline_off_cmd": "cd /repo && cargo test --workspace --no-fail-fast --offline",
        "source_commits": HOOK_COMMITS,
        "add_only": True,
    },
    "engines": [
        {"name": "c17probe", "path": "/verif/c17probe", "serves_properties": ["C17"],
         "kind_free_text": "probe program compiled once per zerokit build configuration (five target directories); driven by vharness"},
        {"name": "vharness", "path": "/verif/harness", "serves_properties": sorted(checks),
         "kind_free_text": "Rust crate: proptest TestRunner driven from a binary (fixed seeds, sharded), independent reference models, replay files; links /repo/rln and /repo/utils by path so every run rebuilds from the working tree"},
    ],
    "checks": [checks[k] for k in sorted(checks)],
    "not_applicable": [{"property_id": p, "reason": PENDING_REASON} for p in ALL if p not in checks],
    "notes": "exit codes: 0 held, 1 violation (VIOLATION line + replay file), 2 inconclusive/tool failure. KNOWN_FINDINGS.txt lists recorded defects (KNOWN-FINDING lines, exit stays 0).",
}
json.dump(manifest, open('/verif/MANIFEST.json', 'w'), indent=1)
print("wrote MANIFEST.json with", len(checks), "checks")
