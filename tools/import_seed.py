#!/usr/bin/env python3
"""import_seed.py <name> <src dir> <property> <demo file> <demo dest> <caught_by csv> <missed_by csv> <needs text>"""
import sys, os, shutil, json, re
name, src, prop, demo, dest, caught, missed, needs = sys.argv[1:9]
dst = f"/verif/seeded/{name}"
os.makedirs(dst, exist_ok=True)
shutil.copy(f"{src}/patch.diff", f"{dst}/patch.diff")
shutil.copy(f"{src}/{demo}", f"{dst}/{demo}")
if os.path.exists(f"{src}/notes.md"):
    shutil.copy(f"{src}/notes.md", f"{dst}/notes.md")
summary = {}
if os.path.exists(f"{src}/confirm.log"):
    log = open(f"{src}/confirm.log").read()
    for k in ["demo_without_patch_rc", "demo_with_patch_rc", "existing_utils_rc", "existing_rln_rc"]:
        m = re.search(k + r"=(\d+)", log)
        if m: summary[k] = int(m.group(1))
    keep = [l for l in log.split("\n") if re.search(r"^(==|test result|demo_|existing_|test .* (FAILED|ok)$)", l)]
    open(f"{dst}/confirm.log", "w").write("\n".join(keep) + "\n")
files = sorted(set(re.findall(r"^\+\+\+ b/(\S+)", open(f"{dst}/patch.diff").read(), re.M)))
meta = {
    "property": prop,
    "files_touched": files,
    "needs_to_manifest": needs,
    "demonstration": {"file": demo, "copy_to": dest, "run": f"cargo test --offline -p {'zerokit_utils' if dest.startswith('utils') else 'rln'} --test {os.path.splitext(demo)[0]}"},
    "confirmed_in_scratch_worktree": {"how": "tools/confirm_seed.sh: demo without patch (passes), demo with patch (fails), cargo test -p zerokit_utils and -p rln --lib --tests with the patch (pass; the known-flaky performance test skipped)", **summary},
    "checks_run_against_it": {"caught_by": [c for c in caught.split(",") if c], "missed_by": [c for c in missed.split(",") if c], "tier": "quick", "how": "tools/try_seed.sh: git -C /repo apply patch.diff; ./check <ID> quick; git -C /repo checkout -- ."},
    "origin": "independent sub-agent given only the property text and a scratch worktree",
}
if os.environ.get("NOTE"):
    meta["checks_run_against_it"]["note"] = os.environ["NOTE"]
json.dump(meta, open(f"{dst}/meta.json", "w"), indent=1)
print("imported", dst)
