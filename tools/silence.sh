#!/bin/bash
# silence.sh <out dir> <seeds...>  — every quick check on the unchanged tree for several seeds and both
# PRNG families, from fresh processes; evidence/replays go to <out dir>, not to /verif/evidence.
OUT=$1; shift
mkdir -p "$OUT"
cd /verif
for seed in "$@"; do
  for rng in chacha xorshift; do
    for id in C01 C02 C03 C04 C05 C06 C07 C08 C09 C10 C11 C12 C13 C14 C15 C16 C17 C18 C19 C20; do
      r=$(VERIF_OUT=$OUT VERIF_SEED=$seed VERIF_RNG=$rng ./check $id quick 2>/dev/null | grep -E "^(VIOLATION|OK|INCONCLUSIVE|  reason)" | tr '\n' ' ' | cut -c1-400)
      echo "seed=$seed rng=$rng $id rc=${PIPESTATUS[0]} $r"
    done
  done
done
