#!/bin/bash
# thorough_bg.sh <out dir> <ID>...  — thorough tier of the given checks with *frozen* binaries (copied
# now), so that later edits of /verif/harness or patches applied to /repo do not disturb the campaign.
# Evidence / replays go to <out dir>; nothing here is registered evidence.
OUT=$1; shift
mkdir -p $OUT/out
cp /verif/harness/target/release/vcheck $OUT/vcheck
cd /verif
for id in "$@"; do
  s=$(date +%s)
  VERIF_OUT=$OUT/out $OUT/vcheck run $id thorough > $OUT/$id.log 2>&1; rc=$?
  e=$(date +%s)
  echo "$id thorough rc=$rc $((e-s))s $(grep -E '^(OK|VIOLATION|INCONCLUSIVE)' $OUT/$id.log | tail -1 | cut -c1-300)"
done
