#!/bin/bash
# thorough_bg.sh <out dir> <ID>...  — thorough tier of the given checks with *frozen* binaries (copied
# now), so that later edits of /verif/harness or patches applied to /repo do not disturb the campaign.
# Evidence / replays go to <out dir>; nothing here is registered evidence.
OUT=$1; shift
mkdir -p $OUT/out
# the binary must come from the unchanged tree: refuse to start while a seeded patch is applied, and
# rebuild first (a previous ./check under tools/try_seed.sh leaves a build of the patched tree behind)
git -C /repo diff --quiet || { echo "/repo has uncommitted changes: not starting"; exit 2; }
( cd /verif/harness && CARGO_NET_OFFLINE=true cargo build --release --quiet ) || exit 2
cp /verif/harness/target/release/vcheck $OUT/vcheck
cd /verif
for id in "$@"; do
  s=$(date +%s)
  VERIF_OUT=$OUT/out $OUT/vcheck run $id thorough > $OUT/$id.log 2>&1; rc=$?
  e=$(date +%s)
  echo "$id thorough rc=$rc $((e-s))s $(grep -E '^(OK|VIOLATION|INCONCLUSIVE)' $OUT/$id.log | tail -1 | cut -c1-300)"
done
