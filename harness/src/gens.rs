//! Shared generators. Every random choice lives inside proptest strategies.

use crate::models::field::{boundary_values, p, Fx};
use num_bigint::BigUint;
use proptest::prelude::*;
use serde::{Deserialize, Serialize};

/// boundary-weighted field element
pub fn fx() -> BoxedStrategy<Fx> {
    let nb = boundary_values().len();
    prop_oneof![
        1 => (0u64..1000).prop_map(Fx::from_u64),
        3 => (0..nb).prop_map(|i| Fx::from_big(&boundary_values()[i])),
        1 => (1u64..70000).prop_map(|d| Fx::from_big(&(p() - BigUint::from(d)))),
        1 => (0..nb, 0u64..70000, any::<bool>()).prop_map(|(i, d, up)| {
            let b = &boundary_values()[i];
            let d = BigUint::from(d);
            if up { Fx::from_big(&((b + d) % p())) } else { Fx::from_big(&((b + p() - d) % p())) }
        }),
        5 => any::<[u8; 32]>().prop_map(|b| Fx::from_big(&(BigUint::from_bytes_le(&b) % p()))),
    ]
    .boxed()
}

/// uniform field element
pub fn fx_uniform() -> BoxedStrategy<Fx> {
    any::<[u8; 32]>()
        .prop_map(|b| Fx::from_big(&(BigUint::from_bytes_le(&b) % p())))
        .boxed()
}

pub fn is_boundary(f: &Fx) -> bool {
    let b = f.big();
    let near = |x: &BigUint| {
        let d = if &b > x { &b - x } else { x - &b };
        d < BigUint::from(70000u32)
    };
    boundary_values().iter().any(near) || near(p())
}

/// A byte string, either literal (short, shrinkable) or a deterministic pattern (long).
#[derive(Clone, Debug, Serialize, Deserialize, PartialEq, Eq)]
pub enum Bytes {
    Lit(Vec<u8>),
    Pat { len: usize, seed: u64 },
}

impl Bytes {
    pub fn expand(&self) -> Vec<u8> {
        match self {
            Bytes::Lit(v) => v.clone(),
            Bytes::Pat { len, seed } => {
                let mut x = *seed | 1;
                let mut out = Vec::with_capacity(*len);
                while out.len() < *len {
                    x ^= x << 13;
                    x ^= x >> 7;
                    x ^= x << 17;
                    out.extend_from_slice(&x.to_le_bytes());
                }
                out.truncate(*len);
                out
            }
        }
    }
    pub fn len(&self) -> usize {
        match self {
            Bytes::Lit(v) => v.len(),
            Bytes::Pat { len, .. } => *len,
        }
    }
}

pub const EDGE_LENS: [usize; 14] = [0, 1, 31, 32, 33, 135, 136, 137, 271, 272, 273, 407, 408, 409];

/// signals / seeds: short literals, block-edge lengths, long patterns
pub fn bytes(max_long: usize) -> BoxedStrategy<Bytes> {
    prop_oneof![
        3 => proptest::collection::vec(any::<u8>(), 0..48).prop_map(Bytes::Lit),
        3 => (0..EDGE_LENS.len(), any::<u64>()).prop_map(|(i, seed)| Bytes::Pat { len: EDGE_LENS[i], seed }),
        2 => (0usize..600, any::<u64>()).prop_map(|(len, seed)| Bytes::Pat { len, seed }),
        1 => (600usize..max_long.max(601), any::<u64>()).prop_map(|(len, seed)| Bytes::Pat { len, seed }),
    ]
    .boxed()
}

pub fn near_block_edge(len: usize) -> bool {
    let r = len % 136;
    len >= 135 && (r == 0 || r == 1 || r == 135)
}

// ---------------------------------------------------------------------------------------------
// I/O behaviour classes: the byte APIs take any `Read` / `Write`; a reader may return short reads and
// a writer may accept fewer bytes than offered. The style is chosen per case (from the case content)
// by the property and applies to every call made through `rd` / `Sink` on that thread.
// ---------------------------------------------------------------------------------------------

thread_local! {
    static IO_STYLE: std::cell::Cell<u8> = const { std::cell::Cell::new(0) };
}

/// 0 = contiguous (Cursor-like), 1 = one byte per call, 2 = up to 7 bytes, 3 = up to 33 bytes
pub fn set_io_style(style: u8) {
    IO_STYLE.with(|s| s.set(style % 4));
}

pub fn io_style() -> u8 {
    IO_STYLE.with(|s| s.get())
}

fn io_step() -> usize {
    match io_style() {
        1 => 1,
        2 => 7,
        3 => 33,
        _ => usize::MAX,
    }
}

/// a reader over `data` that hands out at most `step` bytes per call
pub struct Trickle {
    data: Vec<u8>,
    pos: usize,
    step: usize,
}

impl std::io::Read for Trickle {
    fn read(&mut self, buf: &mut [u8]) -> std::io::Result<usize> {
        let n = buf.len().min(self.step).min(self.data.len() - self.pos);
        buf[..n].copy_from_slice(&self.data[self.pos..self.pos + n]);
        self.pos += n;
        Ok(n)
    }
}

/// reader for an input buffer in the current style
pub fn rd(data: &[u8]) -> Trickle {
    Trickle { data: data.to_vec(), pos: 0, step: io_step() }
}

/// a writer that accepts at most `step` bytes per `write` call (everything with `write_all`)
pub struct Sink {
    pub data: Vec<u8>,
    step: usize,
}

impl Sink {
    pub fn new() -> Self {
        Sink { data: vec![], step: io_step() }
    }
}

impl Default for Sink {
    fn default() -> Self {
        Self::new()
    }
}

impl std::io::Write for Sink {
    fn write(&mut self, buf: &[u8]) -> std::io::Result<usize> {
        let n = buf.len().min(self.step);
        self.data.extend_from_slice(&buf[..n]);
        Ok(n)
    }
    fn flush(&mut self) -> std::io::Result<()> {
        Ok(())
    }
}


// ---------------------------------------------------------------------------------------------
// outputs handed out through the C interface: the callee passes ownership of an output to the
// caller, so what an earlier Buffer designates must not change when later calls are made
// ---------------------------------------------------------------------------------------------

thread_local! {
    static FFI_OUTPUTS: std::cell::RefCell<std::collections::VecDeque<(usize, usize, Vec<u8>)>> = const { std::cell::RefCell::new(std::collections::VecDeque::new()) };
    static FFI_OUTPUT_BROKEN: std::cell::RefCell<Option<String>> = const { std::cell::RefCell::new(None) };
}

/// read an output Buffer (pointer, length) the C interface just handed out: first re-read the last 24
/// outputs of this thread against the bytes they held when they were handed out, then remember this one
pub fn ffi_take_output(ptr: *const u8, len: usize) -> Vec<u8> {
    FFI_OUTPUTS.with(|p| {
        for (addr, l, bytes) in p.borrow().iter() {
            let now = unsafe { std::slice::from_raw_parts(*addr as *const u8, *l) };
            if now != &bytes[..] {
                FFI_OUTPUT_BROKEN.with(|b| {
                    let mut b = b.borrow_mut();
                    if b.is_none() {
                        *b = Some(format!("an output buffer handed out by an earlier call through the C interface ({l} bytes at {addr:#x}) reads differently after a later call"));
                    }
                });
                break;
            }
        }
    });
    if ptr.is_null() || len == 0 {
        return vec![];
    }
    let bytes = unsafe { std::slice::from_raw_parts(ptr, len) }.to_vec();
    FFI_OUTPUTS.with(|p| {
        let mut q = p.borrow_mut();
        if q.len() >= 24 {
            q.pop_front();
        }
        q.push_back((ptr as usize, len, bytes.clone()));
    });
    bytes
}

/// the first breach noticed since the last call of this function
pub fn ffi_outputs_breach() -> Option<String> {
    FFI_OUTPUT_BROKEN.with(|b| b.borrow_mut().take())
}
