//! Coverage-guided mode: a fuzz input is the *random stream* of the property's own proptest
//! strategy (proptest's PassThrough RNG), so every byte string decodes to a well-formed case of the
//! property's generator domain and libFuzzer's mutations become structured mutations of the case.
//! The oracle is the property's own `check`; a failing case is written as an ordinary JSON replay
//! (the reproducible unit; it bypasses libFuzzer and the generator) before the target panics.

use crate::engine::*;
use proptest::strategy::{Strategy, ValueTree};
use proptest::test_runner::{Config, RngAlgorithm, TestRng, TestRunner};
use std::path::PathBuf;
use std::sync::OnceLock;

pub fn case_from_bytes<P: Property>(p: &P, tier: Tier, data: &[u8]) -> Option<P::Case> {
    let rng = TestRng::from_seed(RngAlgorithm::PassThrough, data);
    let config = Config { failure_persistence: None, rng_algorithm: RngAlgorithm::PassThrough, ..Config::default() };
    let mut runner = TestRunner::new_with_rng(config, rng);
    p.strategy(tier, 0).new_tree(&mut runner).ok().map(|t| t.current())
}

fn fuzz_ctx(id: &str) -> &'static Ctx {
    static CTX: OnceLock<Ctx> = OnceLock::new();
    CTX.get_or_init(|| {
        install_quiet_panic_hook();
        let tmpdir = PathBuf::from(format!("/tmp/vfuzz-{}-{}", id, std::process::id()));
        let _ = std::fs::create_dir_all(&tmpdir);
        std::env::set_var("TMPDIR", &tmpdir);
        Ctx { id: id.to_string(), tier: Tier::Quick, seed: 0, known: KnownFindings::load(), strict: false, tmpdir }
    })
}

/// one fuzz iteration; aborts the process (so that libFuzzer saves the input) on a violation
pub fn fuzz_one<P: Property>(p: &P, data: &[u8]) {
    let ctx = fuzz_ctx(p.id());
    let Some(case) = case_from_bytes(p, Tier::Quick, data) else {
        return;
    };
    let out = p.check(ctx, &case);
    if let Some(msg) = out.fail {
        let path = write_replay(p.id(), &case, &msg, ctx);
        println!("VIOLATION property={} replay={}", p.id(), path.display());
        println!("  reason: {}", truncate(&msg, 2000));
        let _ = std::fs::remove_dir_all(&ctx.tmpdir);
        std::process::abort();
    }
}

/// `vcheck fuzz-decode <ID> <artifact>`: show / replay what a saved libFuzzer input decodes to
pub fn decode_and_check<P: Property>(p: &P, ctx: &Ctx, data: &[u8]) -> i32 {
    let Some(case) = case_from_bytes(p, Tier::Quick, data) else {
        println!("input does not decode to a case");
        return 2;
    };
    let out = p.check(ctx, &case);
    match out.fail {
        Some(msg) => {
            let path = write_replay(p.id(), &case, &msg, ctx);
            println!("VIOLATION property={} replay={}", p.id(), path.display());
            println!("  reason: {}", truncate(&msg, 2000));
            1
        }
        None => {
            println!("OK property={} fuzz input decodes to a passing case: {}", p.id(), truncate(&serde_json::to_string(&p.sample_view(&case)).unwrap_or_default(), 400));
            0
        }
    }
}
