//! C14 — identities satisfy the commitment relations; seeded ones are reproducible.

use crate::engine::*;
use crate::gens::{self, Bytes};
use crate::models::field::{big_to_le32, fr_to_big, p};
use crate::models::{keccak_ref, poseidon_ref};
use num_bigint::BigUint;
use proptest::prelude::*;
use rand::{RngCore, SeedableRng};
use rand_chacha::ChaCha20Rng;
use rln::ffi::Buffer;
use rln::public::RLN;
use serde::{Deserialize, Serialize};
use std::io::Cursor;
use std::sync::OnceLock;

pub struct C14;

#[derive(Clone, Debug, Serialize, Deserialize)]
pub enum Case {
    Seeded(Bytes),
    /// two seeds that must give different identities (b = a with one mutation)
    Pair(Bytes, Bytes),
    Unseeded(u8),
}

pub fn rln_instance() -> &'static RLN {
    static R: OnceLock<RLN> = OnceLock::new();
    R.get_or_init(|| RLN::new(20, Cursor::new("{}".to_string())).expect("RLN::new"))
}

/// arkworks' documented sampling of a field element (Fr::rand): four u64 limbs from the RNG,
/// top two bits cleared, rejected if >= p; the limbs are the Montgomery representation, i.e. the
/// value is limbs * 2^-256 mod p.
fn draw_fr(rng: &mut ChaCha20Rng) -> BigUint {
    loop {
        let mut limbs = [0u64; 4];
        for l in limbs.iter_mut() {
            *l = rng.next_u64();
        }
        limbs[3] &= u64::MAX >> 2;
        let mut bytes = vec![];
        for l in limbs {
            bytes.extend_from_slice(&l.to_le_bytes());
        }
        let raw = BigUint::from_bytes_le(&bytes);
        if &raw < p() {
            let r = (BigUint::from(1u32) << 256usize) % p();
            let rinv = r.modpow(&(p() - 2u32), p());
            return (raw * rinv) % p();
        }
    }
}

pub fn ref_seeded(seed: &[u8]) -> (BigUint, BigUint) {
    let mut rng = ChaCha20Rng::from_seed(keccak_ref::keccak256(seed));
    let s = draw_fr(&mut rng);
    let c = poseidon_ref::poseidon(&[s.clone()]);
    (s, c)
}
pub fn ref_seeded_ext(seed: &[u8]) -> (BigUint, BigUint, BigUint, BigUint) {
    let mut rng = ChaCha20Rng::from_seed(keccak_ref::keccak256(seed));
    let t = draw_fr(&mut rng);
    let n = draw_fr(&mut rng);
    let s = poseidon_ref::poseidon(&[t.clone(), n.clone()]);
    let c = poseidon_ref::poseidon(&[s.clone()]);
    (t, n, s, c)
}

fn ffi_out(f: impl FnOnce(*mut Buffer) -> bool) -> Option<Vec<u8>> {
    let mut out = Buffer { ptr: std::ptr::null(), len: 0 };
    if !f(&mut out as *mut Buffer) {
        return None;
    }
    Some(crate::gens::ffi_take_output(out.ptr, out.len))
}

fn cat(v: &[&BigUint]) -> Vec<u8> {
    v.iter().flat_map(|b| big_to_le32(b).to_vec()).collect()
}

fn canonical_chunks(b: &[u8]) -> bool {
    b.len() % 32 == 0 && b.chunks(32).all(|c| &BigUint::from_bytes_le(c) < p())
}

fn check_seeded(seed: &[u8], o: &mut Outcome) -> Option<(Vec<u8>, Vec<u8>)> {
    let rln = rln_instance();
    let (s, c) = ref_seeded(seed);
    let (t, n, s2, c2) = ref_seeded_ext(seed);
    let exp_pair = cat(&[&s, &c]);
    let exp_tuple = cat(&[&t, &n, &s2, &c2]);
    // typed
    match guarded(|| rln::protocol::seeded_keygen(seed)) {
        Ok((gs, gc)) => {
            if fr_to_big(&gs) != s || fr_to_big(&gc) != c {
                vfail!(o, "seeded_keygen(seed len {}) = ({}, {}) but ChaCha20(Keccak(seed)) + H gives ({s}, {c})", seed.len(), fr_to_big(&gs), fr_to_big(&gc));
                return None;
            }
        }
        Err(e) => {
            vfail!(o, "seeded_keygen panicked: {}", e.0);
            return None;
        }
    }
    match guarded(|| rln::protocol::extended_seeded_keygen(seed)) {
        Ok((gt, gn, gs, gc)) => {
            let got = [fr_to_big(&gt), fr_to_big(&gn), fr_to_big(&gs), fr_to_big(&gc)];
            if got != [t.clone(), n.clone(), s2.clone(), c2.clone()] {
                vfail!(o, "extended_seeded_keygen(seed len {}) = {got:?} but reference gives ({t}, {n}, {s2}, {c2})", seed.len());
                return None;
            }
        }
        Err(e) => {
            vfail!(o, "extended_seeded_keygen panicked: {}", e.0);
            return None;
        }
    }
    // RLN byte API
    let mut out = vec![];
    crate::gens::set_io_style((seed.len() % 4) as u8);
    let mut sink = crate::gens::Sink::new();
    let r1 = guarded(|| rln.seeded_key_gen(crate::gens::rd(seed), &mut sink));
    out = sink.data;
    match r1 {
        Ok(Ok(())) if out == exp_pair => {}
        other => {
            vfail!(o, "RLN::seeded_key_gen bytes differ from reference (seed len {}): {:?} out={out:?}", seed.len(), other.map(|r| r.map_err(|e| e.to_string())));
            return None;
        }
    }
    let mut out2 = vec![];
    let mut sink2 = crate::gens::Sink::new();
    let r2 = guarded(|| rln.seeded_extended_key_gen(crate::gens::rd(seed), &mut sink2));
    out2 = sink2.data;
    match r2 {
        Ok(Ok(())) if out2 == exp_tuple => {}
        other => {
            vfail!(o, "RLN::seeded_extended_key_gen bytes differ from reference (seed len {}): {:?}", seed.len(), other.map(|r| r.map_err(|e| e.to_string())));
            return None;
        }
    }
    // FFI
    let inb = Buffer::from(seed);
    match guarded(|| ffi_out(|ob| rln::ffi::seeded_key_gen(rln as *const RLN, &inb as *const Buffer, ob))) {
        Ok(Some(b)) if b == exp_pair => {}
        other => {
            vfail!(o, "ffi::seeded_key_gen differs from reference (seed len {}): {other:?}", seed.len());
            return None;
        }
    }
    match guarded(|| ffi_out(|ob| rln::ffi::seeded_extended_key_gen(rln as *const RLN, &inb as *const Buffer, ob))) {
        Ok(Some(b)) if b == exp_tuple => {}
        other => {
            vfail!(o, "ffi::seeded_extended_key_gen differs from reference (seed len {}): {other:?}", seed.len());
            return None;
        }
    }
    // the same two calls in place: one Buffer struct holds the seed and receives the identity
    for (name, which, want) in [("seeded_key_gen", 0u8, &exp_pair), ("seeded_extended_key_gen", 1u8, &exp_tuple)] {
        let got = guarded(|| {
            let mut io = Buffer::from(seed);
            let p = &mut io as *mut Buffer;
            let ok = if which == 0 { rln::ffi::seeded_key_gen(rln as *const RLN, p as *const Buffer, p) } else { rln::ffi::seeded_extended_key_gen(rln as *const RLN, p as *const Buffer, p) };
            if !ok {
                return None;
            }
            Some(if io.len == 0 {
                vec![]
            } else if io.ptr == seed.as_ptr() {
                unsafe { std::slice::from_raw_parts(io.ptr, io.len) }.to_vec()
            } else {
                crate::gens::ffi_take_output(io.ptr, io.len)
            })
        });
        match got {
            Ok(Some(b)) if &b == want => {}
            other => {
                vfail!(o, "ffi::{name} called with one Buffer as seed input and output differs from reference (seed len {}): {:?}", seed.len(), other.map(|x| x.map(|b| b.len())));
                return None;
            }
        }
    }
    o.evals += 6;
    Some((exp_pair, exp_tuple))
}

fn check_unseeded(o: &mut Outcome) -> Option<Vec<BigUint>> {
    let rln = rln_instance();
    let mut secrets = vec![];
    let rel_pair = |b: &[u8], what: &str, o: &mut Outcome| -> Option<BigUint> {
        if b.len() != 64 || !canonical_chunks(b) {
            vfail!(o, "{what}: output is not two canonical field elements: {b:?}");
            return None;
        }
        let s = BigUint::from_bytes_le(&b[..32]);
        let c = BigUint::from_bytes_le(&b[32..]);
        if poseidon_ref::poseidon(&[s.clone()]) != c {
            vfail!(o, "{what}: commitment {c} != H(secret {s})");
            return None;
        }
        Some(s)
    };
    let rel_tuple = |b: &[u8], what: &str, o: &mut Outcome| -> Option<BigUint> {
        if b.len() != 128 || !canonical_chunks(b) {
            vfail!(o, "{what}: output is not four canonical field elements");
            return None;
        }
        let v: Vec<BigUint> = b.chunks(32).map(BigUint::from_bytes_le).collect();
        if poseidon_ref::poseidon(&[v[0].clone(), v[1].clone()]) != v[2] {
            vfail!(o, "{what}: secret {} != H(trapdoor {}, nullifier {})", v[2], v[0], v[1]);
            return None;
        }
        if poseidon_ref::poseidon(&[v[2].clone()]) != v[3] {
            vfail!(o, "{what}: commitment {} != H(secret {})", v[3], v[2]);
            return None;
        }
        Some(v[2].clone())
    };
    // typed
    match guarded(rln::protocol::keygen) {
        Ok((s, c)) => secrets.push(rel_pair(&cat(&[&fr_to_big(&s), &fr_to_big(&c)]), "keygen", o)?),
        Err(e) => {
            vfail!(o, "keygen panicked: {}", e.0);
            return None;
        }
    }
    match guarded(rln::protocol::extended_keygen) {
        Ok((t, n, s, c)) => secrets.push(rel_tuple(&cat(&[&fr_to_big(&t), &fr_to_big(&n), &fr_to_big(&s), &fr_to_big(&c)]), "extended_keygen", o)?),
        Err(e) => {
            vfail!(o, "extended_keygen panicked: {}", e.0);
            return None;
        }
    }
    let mut out = vec![];
    match guarded(|| rln.key_gen(&mut out)) {
        Ok(Ok(())) => secrets.push(rel_pair(&out, "RLN::key_gen", o)?),
        _ => {
            vfail!(o, "RLN::key_gen failed");
            return None;
        }
    }
    let mut out = vec![];
    match guarded(|| rln.extended_key_gen(&mut out)) {
        Ok(Ok(())) => secrets.push(rel_tuple(&out, "RLN::extended_key_gen", o)?),
        _ => {
            vfail!(o, "RLN::extended_key_gen failed");
            return None;
        }
    }
    match guarded(|| ffi_out(|ob| rln::ffi::key_gen(rln as *const RLN, ob))) {
        Ok(Some(b)) => secrets.push(rel_pair(&b, "ffi::key_gen", o)?),
        _ => {
            vfail!(o, "ffi::key_gen failed");
            return None;
        }
    }
    match guarded(|| ffi_out(|ob| rln::ffi::extended_key_gen(rln as *const RLN, ob))) {
        Ok(Some(b)) => secrets.push(rel_tuple(&b, "ffi::extended_key_gen", o)?),
        _ => {
            vfail!(o, "ffi::extended_key_gen failed");
            return None;
        }
    }
    // pairwise distinct
    for i in 0..secrets.len() {
        for j in 0..i {
            if secrets[i] == secrets[j] {
                vfail!(o, "two unseeded identities share the secret {}", secrets[i]);
                return None;
            }
        }
    }
    o.evals += 6;
    Some(secrets)
}

impl Property for C14 {
    type Case = Case;
    fn id(&self) -> &'static str {
        "C14"
    }
    fn rule(&self) -> String {
        "fixed part also regenerates the seed table from eight threads (3000 rounds quick / 30000 thorough) while eight further threads hash 3..8-element vectors and byte strings with the same library; cases: seeds (empty, short literals, Keccak block-edge lengths, long patterns), seed pairs differing in one byte / by a suffix / only beyond byte 32 or 136, and unseeded invocations; \
         each seeded case is compared on 3 entry points x 2 variants against ChaCha20(Keccak_ref(seed)) + documented field sampling + reference Poseidon; the last 24 identities handed out through the C interface are re-read after every later C call and must still hold the bytes they were handed out with; \
         non-trivial = seed length not in {10,17} (the two pinned by the suite), any pair, any unseeded batch; distinct by case content".into()
    }
    fn assumptions(&self) -> Vec<String> {
        vec![
            "rand_chacha's ChaCha20Rng is the documented generator; arkworks' field sampling rule (4 limbs, top 2 bits cleared, reject >= p, Montgomery interpretation) is mirrored in BigUint".into(),
            "reference Poseidon / Keccak validated by known answers at start-up".into(),
        ]
    }
    fn plan(&self, tier: Tier) -> Plan {
        Plan {
            shards: 16,
            cases_per_shard: tier.pick(1_500, 100_000),
            max_shrink_iters: 1024,
            watchdog_s: tier.pick(600, 5400),
        }
    }
    fn selftest(&self, _ctx: &Ctx) -> Result<(), String> {
        keccak_ref::selftest()?;
        poseidon_ref::selftest()
    }
    fn strategy(&self, tier: Tier, _shard: usize) -> BoxedStrategy<Case> {
        let max_long = tier.pick(5_000, 1 << 20);
        let pair = (gens::bytes(2000), 0usize..5, any::<u16>(), any::<u8>()).prop_map(|(a, kind, pos, x)| {
            let av = a.expand();
            let mut bv = av.clone();
            match kind {
                0 if !bv.is_empty() => {
                    let i = pick_index(pos, bv.len());
                    bv[i] ^= x | 1;
                }
                1 => bv.push(x),
                2 => bv.insert(0, x),
                3 if bv.len() > 1 => {
                    bv.pop();
                }
                _ => {
                    // differ only in the last byte (beyond any fixed-size prefix)
                    if let Some(l) = bv.last_mut() {
                        *l ^= 0x80;
                    } else {
                        bv.push(0);
                    }
                }
            }
            Case::Pair(Bytes::Lit(av), Bytes::Lit(bv))
        });
        prop_oneof![
            5 => gens::bytes(max_long).prop_map(Case::Seeded),
            3 => pair,
            1 => any::<u8>().prop_map(Case::Unseeded),
        ]
        .boxed()
    }
    fn check(&self, _ctx: &Ctx, case: &Case) -> Outcome {
        let mut o = Outcome::new();
        match case {
            Case::Seeded(b) => {
                let seed = b.expand();
                o.label(match seed.len() {
                    0 => "seeded/empty",
                    1..=32 => "seeded/<=32",
                    33..=136 => "seeded/33..136",
                    _ => "seeded/>136",
                });
                o.nontrivial = seed.len() != 10 && seed.len() != 17;
                check_seeded(&seed, &mut o);
            }
            Case::Pair(a, b) => {
                o.label("seed-pair");
                o.nontrivial = true;
                let (a, b) = (a.expand(), b.expand());
                let ra = check_seeded(&a, &mut o);
                let rb = check_seeded(&b, &mut o);
                if let (Some(ra), Some(rb)) = (ra, rb) {
                    if a != b && (ra.0 == rb.0 || ra.1 == rb.1) {
                        vfail!(o, "distinct seeds (len {} / {}) give the same identity", a.len(), b.len());
                    }
                }
            }
            Case::Unseeded(_) => {
                o.label("unseeded");
                o.nontrivial = true;
                check_unseeded(&mut o);
            }
        }
        // identities handed out through the C interface earlier must still read the same
        if !o.failed() {
            if let Some(m) = crate::gens::ffi_outputs_breach() {
                vfail!(o, "{m} (key generation)");
            }
        }
        o
    }
    fn fixed_part(&self, ctx: &Ctx, stats: &mut Stats) -> Option<(String, Option<Case>)> {
        // documented reference seeds -> documented identities (frozen known answers)
        let kat10: &[u8] = &[0, 1, 2, 3, 4, 5, 6, 7, 8, 9];
        let expect_pair = (
            "0x766ce6c7e7a01bdf5b3f257616f603918c30946fa23480f2859c597817e6716",
            "0xbf16d2b5c0d6f9d9d561e05bfca16a81b4b873bb063508fae360d8c74cef51f",
        );
        let (s, c) = rln::protocol::seeded_keygen(kat10);
        let hex = |f: &ark_bn254::Fr| format!("0x{}", fr_to_big(f).to_str_radix(16));
        stats.evaluations += 1;
        if hex(&s) != expect_pair.0 || hex(&c) != expect_pair.1 {
            return Some((format!("documented seed [0..9] gives ({}, {}) instead of the documented identity", hex(&s), hex(&c)), Some(Case::Seeded(Bytes::Lit(kat10.to_vec())))));
        }
        let expect_tuple = [
            "0x766ce6c7e7a01bdf5b3f257616f603918c30946fa23480f2859c597817e6716",
            "0x1f18714c7bc83b5bca9e89d404cf6f2f585bc4c0f7ed8b53742b7e2b298f50b4",
            "0x2aca62aaa7abaf3686fff2caf00f55ab9462dc12db5b5d4bcf3994e671f8e521",
            "0x68b66aa0a8320d2e56842581553285393188714c48f9b17acd198b4f1734c5c",
        ];
        let (t, n, s, c) = rln::protocol::extended_seeded_keygen(kat10);
        let got = [hex(&t), hex(&n), hex(&s), hex(&c)];
        stats.evaluations += 1;
        if got != expect_tuple {
            return Some((format!("documented seed [0..9] gives extended identity {got:?} instead of the documented one"), Some(Case::Seeded(Bytes::Lit(kat10.to_vec())))));
        }
        // fixed seeds table incl. lengths around the Keccak rate and every entry point, then
        // the same seeds concurrently from 16 threads
        let mut seeds: Vec<Vec<u8>> = gens::EDGE_LENS.iter().map(|l| Bytes::Pat { len: *l, seed: 11 }.expand()).collect();
        seeds.push(kat10.to_vec());
        for sd in &seeds {
            let c = Case::Seeded(Bytes::Lit(sd.clone()));
            let mut out = self.check(ctx, &c);
            out.label("fixed-table");
            stats.record(&out, case_hash(&c), || self.sample_view(&c));
            if let Some(m) = out.fail {
                return Some((m, Some(c)));
            }
        }
        let seq: Vec<_> = seeds.iter().map(|s| rln::protocol::extended_seeded_keygen(s)).collect();
        let bad = std::sync::atomic::AtomicBool::new(false);
        let all_secrets = std::sync::Mutex::new(Vec::<BigUint>::new());
        std::thread::scope(|sc| {
            for _ in 0..16 {
                sc.spawn(|| {
                    for _ in 0..4 {
                        let got: Vec<_> = seeds.iter().map(|s| rln::protocol::extended_seeded_keygen(s)).collect();
                        if got != seq {
                            bad.store(true, std::sync::atomic::Ordering::SeqCst);
                        }
                        let (s, _) = rln::protocol::keygen();
                        all_secrets.lock().unwrap().push(fr_to_big(&s));
                    }
                });
            }
        });
        stats.evaluations += 16 * 4 * (seeds.len() as u64 + 1);
        *stats.labels.entry("concurrent-16-threads".into()).or_default() += 1;
        if bad.load(std::sync::atomic::Ordering::SeqCst) {
            return Some(("seeded identities differ between concurrent threads and the sequential run".into(), None));
        }
        // the same seeds from eight threads while eight further threads of the process use the library's
        // other entry points (Poseidon over 3..8 elements, hash-to-field): generation is a function of
        // the seed alone whatever else the process is doing
        let done = std::sync::atomic::AtomicBool::new(false);
        let rounds = ctx.tier.pick(3000usize, 30000usize);
        let contained = guarded(|| std::thread::scope(|sc| {
            let mut gens_h = vec![];
            for _ in 0..8 {
                gens_h.push(sc.spawn(|| {
                    for _ in 0..rounds {
                        let got: Vec<_> = seeds.iter().map(|s| rln::protocol::extended_seeded_keygen(s)).collect();
                        if got != seq {
                            bad.store(true, std::sync::atomic::Ordering::SeqCst);
                            break;
                        }
                    }
                }));
            }
            for k in 0..8u64 {
                let done = &done;
                sc.spawn(move || {
                    let mut i = k;
                    while !done.load(std::sync::atomic::Ordering::Relaxed) {
                        let n = 3 + (i % 6) as usize;
                        let v: Vec<ark_bn254::Fr> = (0..n).map(|j| ark_bn254::Fr::from(i + j as u64)).collect();
                        std::hint::black_box(rln::hashers::poseidon_hash(&v));
                        if i % 16 == 0 {
                            std::hint::black_box(rln::hashers::hash_to_field(&i.to_le_bytes()));
                        }
                        i += 1;
                    }
                });
            }
            for h in gens_h {
                let _ = h.join();
            }
            done.store(true, std::sync::atomic::Ordering::SeqCst);
        }));
        if let Err(p) = contained {
            done.store(true, std::sync::atomic::Ordering::SeqCst);
            return Some((format!("a thread panicked while identities were generated next to other hashing threads: {}", p.0), None));
        }
        stats.evaluations += 8 * rounds as u64 * seeds.len() as u64;
        *stats.labels.entry("concurrent-with-other-entry-points".into()).or_default() += 1;
        if bad.load(std::sync::atomic::Ordering::SeqCst) {
            return Some(("seeded extended identities generated while other threads hash wider inputs differ from the sequential run".into(), None));
        }
        let mut v = all_secrets.into_inner().unwrap();
        let n0 = v.len();
        v.sort();
        v.dedup();
        if v.len() != n0 {
            return Some(("unseeded identities generated concurrently are not pairwise distinct".into(), None));
        }
        None
    }
    fn sample_view(&self, case: &Case) -> serde_json::Value {
        let short = |b: &Bytes| match b {
            Bytes::Lit(v) if v.len() > 48 => serde_json::json!({"Lit_len": v.len(), "head": &v[..16]}),
            b => serde_json::to_value(b).unwrap(),
        };
        match case {
            Case::Seeded(b) => serde_json::json!({"Seeded": short(b)}),
            Case::Pair(a, b) => serde_json::json!({"Pair": [short(a), short(b)]}),
            c => serde_json::to_value(c).unwrap(),
        }
    }
}
