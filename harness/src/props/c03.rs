//! C03 — double-signalling always exposes the identity secret.

use crate::engine::*;
use crate::gens::{self, Bytes};
use crate::models::codec_ref as cr;
use crate::models::field::{fr_to_big, p, Fx};
use crate::models::{formulas, keccak_ref, poseidon_ref};
use crate::rlnh::*;
use num_bigint::BigUint;
use proptest::prelude::*;
use serde::{Deserialize, Serialize};
use std::io::Cursor;
use std::sync::OnceLock;

pub struct C03;

#[derive(Clone, Copy, Debug, Serialize, Deserialize, PartialEq, Eq)]
pub enum Variant {
    TwoSignals,
    SameSignalTwice,
    EqualXDifferentY,
    DifferentEpoch,
    DifferentMessageId,
    /// two different 32-byte signals that are the same number modulo p when read as little-endian
    /// integers (v and v + k*p): different signals all the same
    AliasedSignals,
}

#[derive(Clone, Debug, Serialize, Deserialize)]
pub struct Case {
    pub s: Fx,
    pub e: Fx,
    pub m: Fx,
    pub other: Fx,
    pub sig1: Bytes,
    pub sig2: Bytes,
    pub variant: Variant,
    pub with_signal_tail: bool,
    pub proof_filler: u8,
}

pub fn rln() -> &'static rln::public::RLN {
    static R: OnceLock<rln::public::RLN> = OnceLock::new();
    R.get_or_init(|| new_rln(20))
}

/// message bytes [128 filler | values | (len | signal)] built from zerokit's own
/// proof_values_from_witness; also returns the values as zerokit computed them
fn message(s: &Fx, e: &Fx, m: &Fx, signal: &[u8], filler: u8, tail: bool, o: &mut Outcome) -> Option<(Vec<u8>, cr::ValuesRef)> {
    // x as a sender computes it: zerokit's own signal hash (its agreement with Keccak is C09's
    // business; here two different signals must give two different shares)
    let x = match guarded(|| rln::hashers::hash_to_field(signal)) {
        Ok(x) => fr_to_big(&x),
        Err(pn) => {
            vfail!(o, "hash_to_field panicked on a {}-byte signal: {}", signal.len(), pn.0);
            return None;
        }
    };
    let w = Wit {
        s: *s,
        limit: fxb(&(p() - 1u32)),
        mid: *m,
        path: vec![Fx::from_u64(3); 20],
        bits: vec![0; 20],
        x: fxb(&x),
        e: *e,
    };
    // zerokit's own values wherever its software range check admits the witness (m < limit = p-1);
    // for m = p-1 no admissible limit exists, the values then come from the reference formulas
    let vals = if m.big() == p() - 1u32 {
        o.label("message-id-p-1/reference-values");
        let r = formulas::ref_values(&s.big(), &(p() - 1u32), &m.big(), &vec![BigUint::from(3u32); 20], &[0u8; 20], &x, &e.big());
        cr::ValuesRef { root: r.root, e: e.big(), x: x.clone(), y: r.y, nullifier: r.nullifier }
    } else {
        let iw = match w.to_impl() {
            Ok(Ok(iw)) => iw,
            other => {
                vfail!(o, "deserialize_witness rejected a witness: {:?}", other.map(|r| r.map(|_| ())));
                return None;
            }
        };
        let pv = match guarded(|| rln::protocol::proof_values_from_witness(&iw).map_err(|e| e.to_string())) {
            Ok(Ok(v)) => v,
            other => {
                vfail!(o, "proof_values_from_witness failed: {:?}", other.map(|r| r.map(|_| ())));
                return None;
            }
        };
        cr::ValuesRef {
            root: fr_to_big(&pv.root),
            e: fr_to_big(&pv.external_nullifier),
            x: fr_to_big(&pv.x),
            y: fr_to_big(&pv.y),
            nullifier: fr_to_big(&pv.nullifier),
        }
    };
    let mut msg = vec![filler; 128];
    msg.extend(cr::enc_values(&vals));
    if tail {
        msg.extend(cr::enc_u64(signal.len() as u64));
        msg.extend_from_slice(signal);
    }
    Some((msg, vals))
}

enum Rec {
    Secret(BigUint),
    Empty,
    Error(String),
    Panic(String),
    Malformed(Vec<u8>),
    /// the C entry point disagrees with the Rust API on this pair
    Ffi(String),
}

thread_local! {
    /// the caller's output struct for the C entry point, deliberately re-used from call to call (as a
    /// C caller with one Buffer variable would): whatever an earlier call left in it must not be
    /// mistaken for this call's result
    static FFI_OUT: std::cell::RefCell<rln::ffi::Buffer> = const { std::cell::RefCell::new(rln::ffi::Buffer { ptr: std::ptr::null(), len: 0 }) };
}

/// the same recovery through the C entry point; Err(description) when it disagrees with the Rust API
fn recover_ffi_agrees(m1: &[u8], m2: &[u8], rust: &Result<Vec<u8>, String>) -> Result<(), String> {
    let (b1, b2) = (rln::ffi::Buffer { ptr: m1.as_ptr(), len: m1.len() }, rln::ffi::Buffer { ptr: m2.as_ptr(), len: m2.len() });
    FFI_OUT.with(|cell| {
        let mut out = cell.borrow_mut();
        let flag = rln::ffi::recover_id_secret(rln() as *const rln::public::RLN, &b1 as *const rln::ffi::Buffer, &b2 as *const rln::ffi::Buffer, &mut *out as *mut rln::ffi::Buffer);
        match rust {
            Ok(want) => {
                if !flag {
                    return Err(format!("the C entry point reports failure where the Rust API recovers ({} bytes)", want.len()));
                }
                let got: &[u8] = if out.len == 0 { &[] } else { unsafe { std::slice::from_raw_parts(out.ptr, out.len) } };
                if got != &want[..] {
                    return Err(format!("the C entry point hands back {} bytes, the Rust API writes {} bytes (caller's Buffer struct re-used from the previous call)", got.len(), want.len()));
                }
                Ok(())
            }
            Err(_) => {
                if flag {
                    Err("the C entry point reports success where the Rust API returns an error".into())
                } else {
                    Ok(())
                }
            }
        }
    })
}

fn recover(m1: &[u8], m2: &[u8]) -> Rec {
    let r = recover_rust(m1, m2);
    // both surfaces of the recovery entry point (a panic inside the C function would abort; the Rust
    // API is asked first and the C entry point only when it returned)
    let rust: Option<Result<Vec<u8>, String>> = match &r {
        Rec::Secret(g) => Some(Ok(crate::models::field::big_to_le32(g).to_vec())),
        Rec::Empty => Some(Ok(vec![])),
        Rec::Malformed(b) => Some(Ok(b.clone())),
        Rec::Error(e) => Some(Err(e.clone())),
        Rec::Panic(_) | Rec::Ffi(_) => None,
    };
    if let Some(rust) = rust {
        if let Err(e) = recover_ffi_agrees(m1, m2, &rust) {
            return Rec::Ffi(e);
        }
    }
    r
}

fn recover_rust(m1: &[u8], m2: &[u8]) -> Rec {
    let mut out = vec![];
    crate::gens::set_io_style(((m1.len() + m2.len() + m1.first().copied().unwrap_or(0) as usize) % 4) as u8);
    let mut sink = crate::gens::Sink::new();
    let r = guarded(|| rln().recover_id_secret(crate::gens::rd(m1), crate::gens::rd(m2), &mut sink).map_err(|e| e.to_string()));
    out = sink.data;
    match r {
        Ok(Ok(())) => {
            if out.is_empty() {
                Rec::Empty
            } else if out.len() == 32 && &BigUint::from_bytes_le(&out) < p() {
                Rec::Secret(BigUint::from_bytes_le(&out))
            } else {
                Rec::Malformed(out)
            }
        }
        Ok(Err(e)) => Rec::Error(e),
        Err(pn) => Rec::Panic(pn.0),
    }
}

pub fn check_case(ctx: &Ctx, c: &Case, o: &mut Outcome) {
    let sig1 = c.sig1.expand();
    let mut sig2 = c.sig2.expand();
    let mut sig1 = sig1;
    if c.variant == Variant::AliasedSignals {
        let v = c.other.big();
        let k = (c.proof_filler % 5) as u32 + 1;
        let mut a = v.to_bytes_le();
        a.resize(32, 0);
        let mut b = (&v + p() * k).to_bytes_le();
        b.resize(32, 0);
        sig1 = a;
        sig2 = b;
    }
    if c.variant == Variant::SameSignalTwice {
        sig2 = sig1.clone();
    } else if sig2 == sig1 {
        sig2.push(0x5a);
    }
    let (e2, m2) = match c.variant {
        Variant::DifferentEpoch => (if c.other == c.e { Fx(c.e.0 + ark_bn254::Fr::from(1u64)) } else { c.other }, c.m),
        Variant::DifferentMessageId => (c.e, if c.other == c.m { Fx(c.m.0 + ark_bn254::Fr::from(1u64)) } else { c.other }),
        _ => (c.e, c.m),
    };
    let Some((msg1, v1)) = message(&c.s, &c.e, &c.m, &sig1, c.proof_filler, c.with_signal_tail, o) else { return };
    let Some((mut msg2, mut v2)) = message(&c.s, &e2, &m2, &sig2, c.proof_filler ^ 0xff, c.with_signal_tail, o) else { return };
    // model nullifiers
    let a1 = poseidon_ref::poseidon(&[c.s.big(), c.e.big(), c.m.big()]);
    let n1 = poseidon_ref::poseidon(&[a1.clone()]);
    let a2 = poseidon_ref::poseidon(&[c.s.big(), e2.big(), m2.big()]);
    let n2 = poseidon_ref::poseidon(&[a2]);
    if v1.nullifier != n1 || v2.nullifier != n2 {
        vfail!(o, "generated nullifier differs from H(H(s,e,m)): {} vs {} / {} vs {}", v1.nullifier, n1, v2.nullifier, n2);
        return;
    }
    let same_line = e2 == c.e && m2 == c.m;
    if same_line && v1.nullifier != v2.nullifier {
        vfail!(o, "two messages of the same (secret, external nullifier, message id) carry different nullifiers");
        return;
    }
    if !same_line && v1.nullifier == v2.nullifier {
        vfail!(o, "messages that differ in external nullifier or message id carry the same nullifier");
        return;
    }
    if c.variant == Variant::EqualXDifferentY {
        // hand-built: same x as message 1, different y
        v2.x = v1.x.clone();
        v2.y = (&v1.y + 1u32) % p();
        let mut m = vec![c.proof_filler; 128];
        m.extend(cr::enc_values(&v2));
        msg2 = m;
    }
    o.evals = 3;
    match c.variant {
        Variant::TwoSignals | Variant::AliasedSignals => {
            if v1.x == v2.x {
                vfail!(o, "two different signals ({} and {} bytes) give the same share coordinate x = {}: the secret of a member who sent both cannot be recovered", sig1.len(), sig2.len(), v1.x);
                return;
            }
            for (a, b) in [(&msg1, &msg2), (&msg2, &msg1)] {
                match recover(a, b) {
                    Rec::Secret(got) if got == c.s.big() => {}
                    Rec::Secret(got) => {
                        vfail!(o, "recover_id_secret returned {got}, the identity secret is {:?}", c.s);
                        return;
                    }
                    Rec::Empty => {
                        vfail!(o, "recover_id_secret reported no secret for two shares of the same line");
                        return;
                    }
                    Rec::Error(e) => {
                        vfail!(o, "recover_id_secret failed for two shares of the same line: {e}");
                        return;
                    }
                    Rec::Panic(e) => {
                        vfail!(o, "recover_id_secret panicked: {e}");
                        return;
                    }
                    Rec::Ffi(e) => {
                        vfail!(o, "recover_id_secret: {e}");
                    }
                    Rec::Malformed(b) => {
                        vfail!(o, "recover_id_secret wrote {} bytes that are not a canonical field element", b.len());
                        return;
                    }
                }
            }
        }
        Variant::DifferentEpoch => match recover(&msg1, &msg2) {
            Rec::Empty => {}
            Rec::Secret(g) => vfail!(o, "recovery across different external nullifiers returned a secret ({g})"),
            Rec::Error(e) => vfail!(o, "recovery across different external nullifiers returned an error instead of 'no secret': {e}"),
            Rec::Panic(e) => vfail!(o, "recover_id_secret panicked: {e}"),
            Rec::Malformed(_) => vfail!(o, "recover_id_secret wrote malformed output"),
            Rec::Ffi(e) => vfail!(o, "recover_id_secret across different external nullifiers: {e}"),
        },
        Variant::DifferentMessageId => {
            // only the nullifier relation is specified here; the call must not crash
            if let Rec::Panic(e) = recover(&msg1, &msg2) {
                vfail!(o, "recover_id_secret panicked: {e}");
            }
        }
        Variant::SameSignalTwice | Variant::EqualXDifferentY => {
            let sig = "recover/equal-x";
            if ctx.is_known(sig) {
                o.exclude(sig);
                return;
            }
            match recover(&msg1, &msg2) {
                Rec::Empty | Rec::Error(_) => {}
                Rec::Secret(g) => vfail!(o, "degenerate pair (equal x) produced a secret {g} instead of an error / empty result"),
                Rec::Panic(e) => vfail!(o, "recover_id_secret crashed on a degenerate pair (equal x): {e}"),
                Rec::Malformed(_) => vfail!(o, "recover_id_secret wrote malformed output on a degenerate pair"),
                Rec::Ffi(e) => vfail!(o, "recover_id_secret on a degenerate pair: {e}"),
            }
        }
    }
}

impl Property for C03 {
    type Case = Case;
    fn id(&self) -> &'static str {
        "C03"
    }
    fn rule(&self) -> String {
        "(secret, external nullifier, message id, signal1, signal2) boundary-weighted, six forced variants (two different signals; two different 32-byte signals that are congruent modulo p as little-endian integers; same signal twice = identical shares; equal x with different y; different external nullifier; different message id), with and without the trailing signal_len|signal; messages = [128 filler bytes | proof values from proof_values_from_witness with x = zerokit's own hash of the signal]; \
         oracle: nullifiers equal iff (s,e,m) equal and equal to the reference H(H(s,e,m)); recovery returns exactly s in both argument orders; different external nullifiers give an empty result; degenerate pairs give error/empty, never a panic. A few real generate_rln_proof message pairs are recovered in the fixed part. \
         non-trivial = a degenerate/negative variant, or a recoverable pair with a boundary field value; distinct by case content".into()
    }
    fn assumptions(&self) -> Vec<String> {
        vec!["reference Poseidon/Keccak validated by known answers; Keccak collision resistance (different signals give different x)".into()]
    }
    fn plan(&self, tier: Tier) -> Plan {
        Plan { shards: 16, cases_per_shard: tier.pick(1_500, 80_000), max_shrink_iters: 1024, watchdog_s: tier.pick(900, 7200) }
    }
    fn selftest(&self, _ctx: &Ctx) -> Result<(), String> {
        keccak_ref::selftest()?;
        poseidon_ref::selftest()
    }
    fn strategy(&self, _tier: Tier, _shard: usize) -> BoxedStrategy<Case> {
        let variant = prop_oneof![
            5 => Just(Variant::TwoSignals),
            1 => Just(Variant::AliasedSignals),
            1 => Just(Variant::SameSignalTwice),
            1 => Just(Variant::EqualXDifferentY),
            2 => Just(Variant::DifferentEpoch),
            2 => Just(Variant::DifferentMessageId),
        ];
        (gens::fx(), gens::fx(), gens::fx(), gens::fx(), gens::bytes(2000), gens::bytes(2000), variant, any::<bool>(), any::<u8>())
            .prop_map(|(s, e, m, other, sig1, sig2, variant, with_signal_tail, proof_filler)| Case { s, e, m, other, sig1, sig2, variant, with_signal_tail, proof_filler })
            .boxed()
    }
    fn check(&self, ctx: &Ctx, c: &Case) -> Outcome {
        let mut o = Outcome::new();
        o.label(format!("{:?}", c.variant));
        let boundary = [c.s, c.e, c.m].iter().any(gens::is_boundary);
        if boundary {
            o.label("boundary-value");
        }
        o.nontrivial = c.variant != Variant::TwoSignals || boundary;
        check_case(ctx, c, &mut o);
        o
    }
    fn fixed_part(&self, ctx: &Ctx, stats: &mut Stats) -> Option<(String, Option<Case>)> {
        // real messages: one identity, two signals, same epoch -> recover; different epoch -> empty
        let n = ctx.tier.pick(2usize, 12usize);
        let mut r = new_rln(20);
        for k in 0..n {
            let s = Fx::from_u64(1000 + k as u64 * 77);
            let limit = Fx::from_u64(10);
            let rc = formulas::rate_commitment(&s.big(), &limit.big());
            let index = (3 + k * 87_000) % (1 << 20);
            r.set_leaf(index, Cursor::new(cr::enc_fr(&rc))).unwrap();
            let e1 = Fx::from_u64(42 + k as u64);
            let e2 = Fx::from_u64(43 + k as u64);
            let prove = |r: &mut rln::public::RLN, e: &Fx, sig: &[u8]| -> Result<Vec<u8>, String> {
                let req = cr::enc_prove_input(&s.big(), index as u64, &limit.big(), &BigUint::from(1u32), &e.big(), sig);
                let mut out = vec![];
                r.generate_rln_proof(Cursor::new(req), &mut out).map_err(|e| e.to_string())?;
                Ok(out)
            };
            let (a, b, c2) = match (prove(&mut r, &e1, b"signal one"), prove(&mut r, &e1, b"signal two"), prove(&mut r, &e2, b"signal one")) {
                (Ok(a), Ok(b), Ok(c)) => (a, b, c),
                other => return Some((format!("generate_rln_proof failed in the real-message part: {other:?}"), None)),
            };
            stats.evaluations += 5;
            if a[128 + 128..128 + 160] != b[128 + 128..128 + 160] {
                return Some(("two real messages of one identity/epoch/message id carry different nullifiers".into(), None));
            }
            match recover(&a, &b) {
                Rec::Secret(g) if g == s.big() => {}
                _ => return Some((format!("recovery from two real messages did not return the identity secret {s:?}"), None)),
            }
            match recover(&a, &c2) {
                Rec::Empty => {}
                _ => return Some(("recovery from real messages of different epochs did not report 'no secret'".into(), None)),
            }
        }
        *stats.labels.entry("real-proof-pairs".into()).or_default() += n as u64;
        None
    }
    fn sample_view(&self, c: &Case) -> serde_json::Value {
        serde_json::json!({"s": c.s, "e": c.e, "m": c.m, "variant": format!("{:?}", c.variant), "sig1_len": c.sig1.len(), "sig2_len": c.sig2.len(), "tail": c.with_signal_tail})
    }
}
