//! C08 — batch insert/remove updates have exactly their documented effect, or none.

use super::c06::run_history;
use super::trees::*;
use crate::engine::*;
use crate::models::tree_model::TreeModel;
use ark_bn254::Fr;
use proptest::prelude::*;

pub struct C08;

/// batch shapes forced with equal weight
fn shaped_batch() -> BoxedStrategy<Op> {
    let p = |k: PosKind| Pos { kind: k, raw: 0 };
    let u = |raw: u16| Pos { kind: PosKind::Uniform, raw };
    prop_oneof![
        // write-only
        2 => (pos_any(), vals(8)).prop_map(|(s, v)| Op::Batch(s, v, vec![])),
        // remove-only (contiguous, scattered, duplicates, unsorted)
        2 => removal_set().prop_map(move |r| Op::Batch(p(PosKind::Zero), vec![], r)),
        1 => (any::<u16>(), any::<u16>()).prop_map(move |(a, b)| Op::Batch(p(PosKind::Mark), vec![], vec![u(a.max(b)), u(a.min(b)), u(a.max(b))])),
        // removals = written range at 0
        1 => (1usize..6).prop_map(move |n| Op::Batch(p(PosKind::Zero), vec![1; n], (0..n).map(|i| Pos { kind: PosKind::NearEnd, raw: 0 }.min_zero(i)).collect())),
        // general mixed
        6 => op_batch(),
        // start at the edges
        1 => (vals(6), removal_set()).prop_map(move |(v, r)| Op::Batch(p(PosKind::Mark), v, r)),
        1 => (vals(6), removal_set(), any::<u16>()).prop_map(|(v, r, raw)| Op::Batch(Pos { kind: PosKind::NearEnd, raw }, v, r)),
        1 => (vals(3), removal_set()).prop_map(move |(v, r)| Op::Batch(p(PosKind::Max), v, r)),
        // empty both
        1 => pos_any().prop_map(|s| Op::Batch(s, vec![], vec![])),
        // batch initialisation
        2 => vals(9).prop_map(Op::Init),
        1 => (60usize..70).prop_map(|n| Op::Init(vec![2; n])),
    ]
    .boxed()
}

trait MinZero {
    fn min_zero(self, i: usize) -> Pos;
}
impl MinZero for Pos {
    /// position with absolute small index i (Uniform selector cannot express it for every depth,
    /// so small absolute indices are encoded through NearEnd/Zero only when i == 0)
    fn min_zero(self, i: usize) -> Pos {
        if i == 0 {
            Pos { kind: PosKind::Zero, raw: 0 }
        } else {
            // Uniform with raw chosen so that it resolves to i for capacities up to 64 is not
            // possible in general; use MarkMinus1-like relative selectors instead
            Pos { kind: PosKind::Uniform, raw: (i as u16) << 10 }
        }
    }
}

impl Property for C08 {
    type Case = TreeCase;
    fn id(&self) -> &'static str {
        "C08"
    }
    fn rule(&self) -> String {
        "a reachable tree state (0..10 generated set/delete/append/set_range operations; for every third case with the persistent backend additionally closed and reopened from disk) followed by 1..3 batch requests drawn from forced shape classes (write-only, remove-only incl. scattered/unsorted/duplicate, removals before/inside/after/interleaved with the written range, empty both, start in {0, mark, near end, cap, cap+1, usize::MAX}, removal >= cap, batch initialisation incl. over-capacity); \
         entry points: trait override_range on full/optimal/pmtree and RLN::atomic_operation / set_leaves_from / init_tree_with_leaves; after every request every leaf, every subtree root, the root and leaves_set() are compared with the ideal model (effect exactly as documented, or rejected with every observation unchanged; a panic is a violation). A quarter of the histories have the state read back by a second long-lived thread of the caller (taking turns with the thread that writes). \
         non-trivial = batch with both parts non-empty and a removal outside the written range, or a rejected batch on a non-empty tree; distinct by case content".into()
    }
    fn assumptions(&self) -> Vec<String> {
        vec![
            "a removal index >= capacity may either reject the whole batch (state unchanged) or be ignored; a removal-only batch ignores its start position".into(),
            "the pair hash used by the ideal tree is the tree's own Hasher (judged separately by C09)".into(),
        ]
    }
    fn plan(&self, tier: Tier) -> Plan {
        Plan { shards: 16, cases_per_shard: tier.pick(200, 10_000), max_shrink_iters: 4096, watchdog_s: tier.pick(900, 7200) }
    }
    fn strategy(&self, tier: Tier, _shard: usize) -> BoxedStrategy<TreeCase> {
        use BackendKind::*;
        let backends = prop_oneof![
            4 => Just(vec![Full, Optimal]),
            3 => Just(vec![Full, Optimal, Pm]),
            2 => Just(vec![Pm, RlnApi]),
            1 => Just(vec![Full, Optimal, Pm, RlnApi]),
        ];
        (
            depth_strategy(tier),
            backends,
            proptest::collection::vec(op_basic(), 0..10),
            proptest::collection::vec(shaped_batch(), 1..4),
        )
            .prop_map(|(depth, backends, mut ops, batches)| {
                let backends = if depth == 20 { vec![Optimal, Pm, RlnApi] } else { backends };
                ops.extend(batches);
                tame_for_depth20(depth, &mut ops);
                TreeCase { depth, backends, ops }
            })
            .boxed()
    }
    fn check(&self, ctx: &Ctx, case: &TreeCase) -> Outcome {
        let mut o = Outcome::new();
        // classification against a plain model
        let mut m = TreeModel::new(case.depth, Fr::from(0u64));
        let mut nontrivial = false;
        for op in &case.ops {
            let r = op.resolve(&m);
            if let ROp::Batch(s, v, rem) = &r {
                let end = s.wrapping_add(v.len());
                let fits = m.batch_fits(*s, v.len());
                let shape = match (v.is_empty(), rem.is_empty()) {
                    (true, true) => "empty-both",
                    (false, true) => "write-only",
                    (true, false) => "remove-only",
                    (false, false) => "mixed",
                };
                o.label(format!("batch/{shape}"));
                if !v.is_empty() && !fits {
                    o.label("batch/range-beyond-capacity");
                    if m.mark > 0 {
                        nontrivial = true;
                    }
                }
                if rem.iter().any(|x| *x >= m.cap()) {
                    o.label("batch/removal>=cap");
                }
                if !v.is_empty() && !rem.is_empty() {
                    if rem.iter().any(|x| *x < *s) {
                        o.label("batch/mixed/removal-before-range");
                    }
                    if rem.iter().any(|x| *x >= end) {
                        o.label("batch/mixed/removal-after-range");
                    }
                    if rem.iter().any(|x| *x < *s || *x >= end) {
                        nontrivial = true;
                    }
                }
                let mut sorted = rem.clone();
                sorted.sort();
                if sorted != *rem {
                    o.label("batch/unsorted-removals");
                }
                sorted.dedup();
                if sorted.len() != rem.len() {
                    o.label("batch/duplicate-removals");
                }
                if sorted.windows(2).any(|w| w[1] > w[0] + 1) {
                    o.label("batch/non-contiguous-removals");
                }
            }
            if let ROp::Init(v) = &r {
                o.label(if v.len() > m.cap() { "init/over-capacity" } else { "init" });
                if v.len() > m.cap() && m.mark > 0 {
                    nontrivial = true;
                }
            }
            r.apply_model(&mut m);
        }
        o.label(format!("depth/{}", case.depth));
        for k in &case.backends {
            o.label(format!("backend/{}", k.name()));
        }
        o.nontrivial = nontrivial;
        run_history(ctx, case, Focus::STATE, true, &mut o);
        // states reached through a close + reopen of a persistent tree are reachable states too:
        // every third case with the persistent backend repeats the history on a non-temporary tree
        // that is flushed, dropped and reopened right before the first batch request
        if !o.failed() && case.backends.contains(&BackendKind::Pm) && case_hash(case) % 3 == 0 && case.depth <= 10 {
            o.label("persistent-reopened-before-batch");
            let base = ctx.tmpdir.join(format!("c08-{:016x}-{:?}", case_hash(case), std::thread::current().id()));
            let _ = std::fs::remove_dir_all(&base);
            let c16case = super::c16::Case {
                depth: case.depth,
                cfg: super::c16::StoreCfg { cache: 0, flush_ms: 0, low_space: false, compression: false, path_style: 0 },
                api: super::c16::Api::Trait,
                ops: vec![],
                mode: super::c16::Mode::NoFault,
            };
            let mut st = super::c16::Store::new(&c16case, &base);
            match st.open() {
                Ok(Ok(())) => {
                    let mut m = TreeModel::new(case.depth, Fr::from(0u64));
                    let mut reopened = false;
                    for (k, op) in case.ops.iter().enumerate() {
                        if !reopened && matches!(op, Op::Batch(..) | Op::Init(..)) {
                            reopened = true;
                            let ok = matches!(st.bm().apply(&ROp::Flush), Some(Ok(Ok(()))));
                            st.close();
                            if !ok || !matches!(st.open(), Ok(Ok(()))) {
                                vfail!(o, "persistent tree: flush + reopen before step {k} failed");
                                break;
                            }
                        }
                        let is_batch = matches!(op, Op::Batch(..));
                        match step(ctx, st.bm(), &mut m, op, Focus::STATE, is_batch) {
                            Ok(rep) => {
                                o.evals += rep.evals;
                                for s in rep.skipped_known {
                                    o.exclude(s);
                                }
                            }
                            Err(e) => {
                                vfail!(o, "persistent tree reopened before the first batch, depth {} step {k}: {e}", case.depth);
                                break;
                            }
                        }
                    }
                }
                other => vfail!(o, "cannot open a persistent tree: {:?}", other.map(|r| r.map(|_| ())).map_err(|p| p.0)),
            }
            st.close();
            let _ = std::fs::remove_dir_all(&base);
        }
        o
    }
    fn sample_view(&self, case: &TreeCase) -> serde_json::Value {
        super::c06::C06.sample_view(case)
    }
}
