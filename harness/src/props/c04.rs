//! C04 — published proof values equal the RLN formulas and the circuit's outputs.

use crate::engine::*;
use crate::gens;
use crate::models::field::fr_to_big;
use crate::models::{formulas, keccak_ref, poseidon_ref};
use crate::rlnh::*;
use proptest::prelude::*;

pub struct C04;

/// a witness and a few follow-up witnesses derived from it by changing one component; all of them
/// are evaluated back to back on one thread (the published values must be a function of the
/// witness alone, whatever was computed just before)
#[derive(Clone, Debug, serde::Serialize, serde::Deserialize)]
pub struct Case {
    pub w: Wit,
    pub follow: Vec<Follow>,
    /// 1..=3: additionally the circuit's full witness vector, written as an external witness
    /// calculator may write it (1 = canonical, 2 = balanced: v > (p-1)/2 as v - p, 3 = every non-zero
    /// entry as v - p), goes through generate_proof_with_witness, and the proof must verify for the
    /// values the formulas give
    #[serde(default)]
    pub proof_repr: u8,
    /// a request proved from tree state through a writer of the given behaviour (gens io style): the
    /// values section of the message that reaches the writer must be the formulas' values
    #[serde(default)]
    pub tree_request: Option<(crate::pipeline::Req, u8)>,
}

#[derive(Clone, Copy, Debug, serde::Serialize, serde::Deserialize)]
pub enum Follow {
    /// another message id below the same limit
    Mid(u16),
    X(crate::models::field::Fx),
    E(crate::models::field::Fx),
    S(crate::models::field::Fx),
    Same,
}

fn derive(w: &Wit, f: &Follow) -> Wit {
    let mut n = w.clone();
    match f {
        Follow::Mid(raw) => {
            use num_traits::ToPrimitive;
            let limit = w.limit.big().to_u64().unwrap_or(1).max(1);
            let mut m = (*raw as u64) % limit;
            if crate::models::field::Fx::from_u64(m) == w.mid {
                m = (m + 1) % limit;
            }
            n.mid = crate::models::field::Fx::from_u64(m);
        }
        Follow::X(x) => n.x = *x,
        Follow::E(e) => n.e = *e,
        Follow::S(s) => n.s = *s,
        Follow::Same => {}
    }
    n
}

impl Property for C04 {
    type Case = Case;
    fn id(&self) -> &'static str {
        "C04"
    }
    fn rule(&self) -> String {
        "witnesses (s, limit, m, 20 path elements, 20 direction bits, x, e) accepted by the circuit (m < limit <= 2^16), field values boundary-weighted, bit patterns weighted to all-0/all-1/alternating/single-1/single-0/random; three-way comparison proof_values_from_witness == BigUint formulas (reference Poseidon) == witness vector positions 1..5 of the bundled graph (y, root, nullifier, x, e), plus serialize_proof_values bytes == the formulas' values in the documented layout; 40% of the cases are followed back to back on the same thread by 1..3 related witnesses (another message id below the limit / another x / external nullifier / secret / the same) and by the first witness again; one witness in eight is evaluated from a caller buffer that held (and was evaluated as) a same-length sibling of the graph file just before; fixed part: 3 (thorough 30) witnesses whose full circuit vector, written with canonical / balanced / negative entries, goes through generate_proof_with_witness and must verify for the formulas' values; one request proved from tree state through each writer behaviour (everything at once, 1, 7, 33 bytes per call): the values section of what reaches the writer equals the formulas' values. \
         non-trivial = a direction bit set at level >= 8 or a boundary field value; distinct by case content".into()
    }
    fn assumptions(&self) -> Vec<String> {
        vec!["reference Poseidon validated by circomlibjs known answers; the witness object is built through zerokit's own deserialize_witness from an independently encoded byte string".into()]
    }
    fn plan(&self, tier: Tier) -> Plan {
        Plan { shards: 16, cases_per_shard: tier.pick(1_000, 50_000), max_shrink_iters: 512, watchdog_s: tier.pick(900, 7200) }
    }
    fn selftest(&self, _ctx: &Ctx) -> Result<(), String> {
        keccak_ref::selftest()?;
        poseidon_ref::selftest()
    }
    fn strategy(&self, _tier: Tier, _shard: usize) -> BoxedStrategy<Case> {
        let follow = prop_oneof![
            4 => any::<u16>().prop_map(Follow::Mid),
            2 => gens::fx().prop_map(Follow::X),
            2 => gens::fx().prop_map(Follow::E),
            1 => gens::fx().prop_map(Follow::S),
            1 => Just(Follow::Same),
        ];
        (valid_wit(), prop_oneof![3 => Just(vec![]).boxed(), 2 => proptest::collection::vec(follow, 1..4).boxed()]).prop_map(|(w, follow)| Case { w, follow, proof_repr: 0, tree_request: None }).boxed()
    }
    fn check(&self, ctx: &Ctx, c: &Case) -> Outcome {
        if let Some((req, io)) = &c.tree_request {
            // the published message itself: proved from tree state, written through a writer that
            // accepts 1 / 7 / 33 bytes per call (or everything); C01's acceptance checks include
            // "values section == formulas' values" and "root == ideal tree's root"
            let mut o = Outcome::new();
            o.label(format!("message-from-tree-state/io-style-{}", io % 4));
            o.nontrivial = true;
            gens::set_io_style(io % 4);
            let c1 = crate::props::c01::Case { req: req.clone(), pre: vec![], post: vec![], entry: crate::props::c01::Entry::FromTree, place: crate::props::c01::Place::SetLeaf, second: None, variant: 0 };
            crate::props::c01::run_case(&c1, &mut o);
            gens::set_io_style(0);
            return o;
        }
        let mut o = check_one(ctx, &c.w);
        if !c.follow.is_empty() {
            o.label("sequence-of-related-witnesses");
        }
        let mut evals = o.evals;
        for (k, f) in c.follow.iter().enumerate() {
            if o.failed() {
                break;
            }
            let w2 = derive(&c.w, f);
            let o2 = check_one(ctx, &w2);
            evals += o2.evals;
            if let Some(m) = o2.fail {
                vfail!(o, "{m} [witness {} of a back-to-back sequence: the first witness with {f:?}]", k + 2);
            }
            // and the first one again
            let o3 = check_one(ctx, &c.w);
            evals += o3.evals;
            if let Some(m) = o3.fail {
                vfail!(o, "{m} [the first witness evaluated again after a related one ({f:?})]");
            }
        }
        o.evals = evals;
        if c.proof_repr > 0 && !o.failed() {
            o.label(format!("proof-from-external-vector/{}", ["", "canonical", "balanced", "negative"][c.proof_repr as usize % 4]));
            prove_external(&c.w, c.proof_repr, &mut o);
        }
        o
    }
    /// a few witnesses per run also go through the external-vector prover in each representation
    fn fixed_part(&self, ctx: &Ctx, stats: &mut Stats) -> Option<(String, Option<Case>)> {
        let n = ctx.tier.pick(3, 30);
        // the message as it reaches a caller's writer, once per writer behaviour
        let reqs = crate::pipeline::draw(&crate::pipeline::req_strategy(300), ctx.seed, "c04-tree-request", 1);
        let any_w = crate::pipeline::draw(&valid_wit(), ctx.seed, "c04-any", 1);
        for io in 0u8..4 {
            let c = Case { w: any_w[0].clone(), follow: vec![], proof_repr: 0, tree_request: Some((reqs[0].clone(), io)) };
            let out = self.check(ctx, &c);
            stats.record(&out, case_hash(&c), || serde_json::json!({"message_from_tree_state": {"io_style": io, "index": reqs[0].index}}));
            if let Some(m) = out.fail {
                return Some((m, Some(c)));
            }
        }
        let ws = crate::pipeline::draw(&valid_wit(), ctx.seed, "c04-external", n);
        for (k, w) in ws.into_iter().enumerate() {
            let c = Case { w, follow: vec![], proof_repr: (k % 3) as u8 + 1, tree_request: None };
            let out = self.check(ctx, &c);
            stats.record(&out, case_hash(&c), || self.sample_view(&c));
            if let Some(m) = out.fail {
                return Some((m, Some(c)));
            }
        }
        None
    }
    fn sample_view(&self, c: &Case) -> serde_json::Value {
        let w = &c.w;
        serde_json::json!({"s": w.s, "limit": w.limit, "mid": w.mid, "bits": w.bits.iter().map(|b| b.to_string()).collect::<String>(), "x": w.x, "e": w.e, "path0": w.path[0], "follow": c.follow})
    }
}

fn prove_external(w: &Wit, repr: u8, o: &mut Outcome) {
    use num_bigint::{BigInt, BigUint};
    let r = w.to_ref();
    let want = formulas::ref_values(&r.s, &r.limit, &r.mid, &r.path, &r.bits, &r.x, &r.e);
    let wv = match guarded(|| rln::circuit::calculate_rln_witness(named_inputs(w), graph_bytes())) {
        Ok(v) => v,
        Err(p) => {
            vfail!(o, "calculate_rln_witness panicked on a valid witness: {}", p.0);
            return;
        }
    };
    let pm: BigUint = crate::models::field::p().clone();
    let half = (&pm - 1u32) / 2u32;
    let vec: Vec<BigInt> = wv
        .iter()
        .map(|f| {
            let v = fr_to_big(f);
            let neg = match repr {
                2 => v > half,
                3 => v != BigUint::from(0u32),
                _ => false,
            };
            if neg {
                BigInt::from(v) - BigInt::from(pm.clone())
            } else {
                BigInt::from(v)
            }
        })
        .collect();
    let key = rln::circuit::zkey_from_folder();
    let proof = match guarded(|| rln::protocol::generate_proof_with_witness(vec, key).map_err(|e| e.to_string())) {
        Ok(Ok(p)) => p,
        Ok(Err(e)) => {
            vfail!(o, "generate_proof_with_witness refused the circuit's own witness vector (representation {repr}): {e}");
            return;
        }
        Err(p) => {
            vfail!(o, "generate_proof_with_witness panicked: {}", p.0);
            return;
        }
    };
    let big = crate::models::field::big_to_fr;
    let values = rln::protocol::RLNProofValues { y: big(&want.y), nullifier: big(&want.nullifier), root: big(&want.root), x: big(&r.x), external_nullifier: big(&r.e) };
    o.evals += 1;
    match guarded(|| rln::protocol::verify_proof(&key.0.vk, &proof, &values).map_err(|e| e.to_string())) {
        Ok(Ok(true)) => {}
        other => vfail!(o, "the proof made from the circuit's witness vector (entries written in representation {repr}: 1 canonical, 2 balanced, 3 negative) does not verify for the values the RLN formulas give: {other:?}"),
    }
}

fn check_one(_ctx: &Ctx, w: &Wit) -> Outcome {
    {
        let mut o = Outcome::new();
        let high_bit = w.bits.iter().enumerate().any(|(i, b)| i >= 8 && *b == 1);
        let boundary = [w.s, w.x, w.e].iter().any(gens::is_boundary);
        if high_bit {
            o.label("bit-at-level>=8");
        }
        if boundary {
            o.label("boundary-field-value");
        }
        if w.mid.big() + 1u32 == w.limit.big() {
            o.label("mid=limit-1");
        }
        o.nontrivial = high_bit || boundary;
        let r = w.to_ref();
        let want = formulas::ref_values(&r.s, &r.limit, &r.mid, &r.path, &r.bits, &r.x, &r.e);
        let iw = match w.to_impl() {
            Ok(Ok(iw)) => iw,
            other => {
                vfail!(o, "deserialize_witness rejected a valid witness encoding: {:?}", other.map(|r| r.map(|_| ())));
                return o;
            }
        };
        match guarded(|| rln::protocol::proof_values_from_witness(&iw).map_err(|e| e.to_string())) {
            Ok(Ok(v)) => {
                let got = [fr_to_big(&v.y), fr_to_big(&v.root), fr_to_big(&v.nullifier), fr_to_big(&v.x), fr_to_big(&v.external_nullifier)];
                let exp = [want.y.clone(), want.root.clone(), want.nullifier.clone(), r.x.clone(), r.e.clone()];
                for (k, name) in ["y", "root", "nullifier", "x", "external_nullifier"].iter().enumerate() {
                    if got[k] != exp[k] {
                        vfail!(o, "proof_values_from_witness: {name} = {}, the RLN formula gives {}", got[k], exp[k]);
                        return o;
                    }
                }
                // the bytes that are actually published (documented order root | e | x | y | nullifier)
                let published = rln::protocol::serialize_proof_values(&v);
                let want_bytes = crate::models::codec_ref::enc_values(&crate::models::codec_ref::ValuesRef { root: want.root.clone(), e: r.e.clone(), x: r.x.clone(), y: want.y.clone(), nullifier: want.nullifier.clone() });
                if published != want_bytes {
                    let at = published.iter().zip(want_bytes.iter()).position(|(a, b)| a != b);
                    vfail!(o, "serialize_proof_values: published bytes differ from the formulas' values in the documented layout (first difference at byte {at:?}, lengths {} / {})", published.len(), want_bytes.len());
                    return o;
                }
            }
            other => {
                vfail!(o, "proof_values_from_witness failed on a valid witness: {other:?}");
                return o;
            }
        }
        // one witness in eight: the circuit is evaluated from a caller buffer that held a same-length
        // sibling of the graph file (one constant changed) a moment ago and was evaluated as such
        let reuse = case_hash(w) % 8 == 0;
        let mut buf: Vec<u8> = vec![];
        let mut g: &[u8] = graph_bytes();
        if reuse {
            if let Ok((g0, g1)) = crate::props::c05::restored_graphs() {
                if g0.len() == g1.len() {
                    o.label("graph-buffer-reused-after-a-sibling-graph");
                    buf.extend_from_slice(g1);
                    let _ = guarded(|| rln::circuit::calculate_rln_witness(named_inputs(w), &buf[..]));
                    buf.copy_from_slice(g0);
                    g = &buf[..];
                }
            }
        }
        match guarded(|| rln::circuit::calculate_rln_witness(named_inputs(w), g)) {
            Ok(wv) => {
                if wv.len() < 6 {
                    vfail!(o, "witness vector has only {} elements", wv.len());
                    return o;
                }
                let got: Vec<_> = wv[0..6].iter().map(fr_to_big).collect();
                let exp = [1u32.into(), want.y, want.root, want.nullifier, r.x, r.e];
                for (k, name) in ["one", "y", "root", "nullifier", "x", "external_nullifier"].iter().enumerate() {
                    if got[k] != exp[k] {
                        vfail!(o, "circuit witness position {k} ({name}) = {}, the RLN formula gives {}", got[k], exp[k]);
                        return o;
                    }
                }
            }
            Err(p) => vfail!(o, "calculate_rln_witness panicked on a valid witness: {}", p.0),
        }
        o.evals = 2;
        o
    }
}
