//! C04 — published proof values equal the RLN formulas and the circuit's outputs.

use crate::engine::*;
use crate::gens;
use crate::models::field::fr_to_big;
use crate::models::{formulas, keccak_ref, poseidon_ref};
use crate::rlnh::*;
use proptest::prelude::*;

pub struct C04;

impl Property for C04 {
    type Case = Wit;
    fn id(&self) -> &'static str {
        "C04"
    }
    fn rule(&self) -> String {
        "witnesses (s, limit, m, 20 path elements, 20 direction bits, x, e) accepted by the circuit (m < limit <= 2^16), field values boundary-weighted, bit patterns weighted to all-0/all-1/alternating/single-1/single-0/random; three-way comparison proof_values_from_witness == BigUint formulas (reference Poseidon) == witness vector positions 1..5 of the bundled graph (y, root, nullifier, x, e). \
         non-trivial = a direction bit set at level >= 8 or a boundary field value; distinct by case content".into()
    }
    fn assumptions(&self) -> Vec<String> {
        vec!["reference Poseidon validated by circomlibjs known answers; the witness object is built through zerokit's own deserialize_witness from an independently encoded byte string".into()]
    }
    fn plan(&self, tier: Tier) -> Plan {
        Plan { shards: 16, cases_per_shard: tier.pick(1_000, 50_000), max_shrink_iters: 512, watchdog_s: tier.pick(900, 7200) }
    }
    fn selftest(&self, _ctx: &Ctx) -> Result<(), String> {
        keccak_ref::selftest()?;
        poseidon_ref::selftest()
    }
    fn strategy(&self, _tier: Tier, _shard: usize) -> BoxedStrategy<Wit> {
        valid_wit()
    }
    fn check(&self, _ctx: &Ctx, w: &Wit) -> Outcome {
        let mut o = Outcome::new();
        let high_bit = w.bits.iter().enumerate().any(|(i, b)| i >= 8 && *b == 1);
        let boundary = [w.s, w.x, w.e].iter().any(gens::is_boundary);
        if high_bit {
            o.label("bit-at-level>=8");
        }
        if boundary {
            o.label("boundary-field-value");
        }
        if w.mid.big() + 1u32 == w.limit.big() {
            o.label("mid=limit-1");
        }
        o.nontrivial = high_bit || boundary;
        let r = w.to_ref();
        let want = formulas::ref_values(&r.s, &r.limit, &r.mid, &r.path, &r.bits, &r.x, &r.e);
        let iw = match w.to_impl() {
            Ok(Ok(iw)) => iw,
            other => {
                vfail!(o, "deserialize_witness rejected a valid witness encoding: {:?}", other.map(|r| r.map(|_| ())));
                return o;
            }
        };
        match guarded(|| rln::protocol::proof_values_from_witness(&iw).map_err(|e| e.to_string())) {
            Ok(Ok(v)) => {
                let got = [fr_to_big(&v.y), fr_to_big(&v.root), fr_to_big(&v.nullifier), fr_to_big(&v.x), fr_to_big(&v.external_nullifier)];
                let exp = [want.y.clone(), want.root.clone(), want.nullifier.clone(), r.x.clone(), r.e.clone()];
                for (k, name) in ["y", "root", "nullifier", "x", "external_nullifier"].iter().enumerate() {
                    if got[k] != exp[k] {
                        vfail!(o, "proof_values_from_witness: {name} = {}, the RLN formula gives {}", got[k], exp[k]);
                        return o;
                    }
                }
            }
            other => {
                vfail!(o, "proof_values_from_witness failed on a valid witness: {other:?}");
                return o;
            }
        }
        match guarded(|| rln::circuit::calculate_rln_witness(named_inputs(w), graph_bytes())) {
            Ok(wv) => {
                if wv.len() < 6 {
                    vfail!(o, "witness vector has only {} elements", wv.len());
                    return o;
                }
                let got: Vec<_> = wv[0..6].iter().map(fr_to_big).collect();
                let exp = [1u32.into(), want.y, want.root, want.nullifier, r.x, r.e];
                for (k, name) in ["one", "y", "root", "nullifier", "x", "external_nullifier"].iter().enumerate() {
                    if got[k] != exp[k] {
                        vfail!(o, "circuit witness position {k} ({name}) = {}, the RLN formula gives {}", got[k], exp[k]);
                        return o;
                    }
                }
            }
            Err(p) => vfail!(o, "calculate_rln_witness panicked on a valid witness: {}", p.0),
        }
        o.evals = 2;
        o
    }
    fn sample_view(&self, w: &Wit) -> serde_json::Value {
        serde_json::json!({"s": w.s, "limit": w.limit, "mid": w.mid, "bits": w.bits.iter().map(|b| b.to_string()).collect::<String>(), "x": w.x, "e": w.e, "path0": w.path[0]})
    }
}
