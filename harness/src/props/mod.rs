pub mod c09;
pub mod c14;
pub mod c06;
pub mod c15;
pub mod trees;
pub mod c08;
pub mod c07;
