pub mod c09;
pub mod c14;
