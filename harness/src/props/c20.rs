//! C20 — any well-formed witness graph evaluates as specified and survives storage.

use super::c19::{to_impl_op, to_u256};
use crate::engine::*;
use crate::gens;
use crate::models::circom_ops::{self as co, Op as ROp, ALL_OPS};
use crate::models::field::{big_to_fr, fr_to_big, Fx};
use num_bigint::BigUint;
use proptest::prelude::*;
use rln::circuit::iden3calc::graph::{self, Node, TresOperation, UnoOperation};
use rln::circuit::iden3calc::storage::{deserialize_witnesscalc_graph, serialize_witnesscalc_graph};
use rln::circuit::iden3calc::{calc_witness, InputSignalsInfo};
use serde::{Deserialize, Serialize};
use std::collections::BTreeMap;

pub struct C20;

#[derive(Clone, Debug, Serialize, Deserialize)]
pub enum GNode {
    /// reference into the input buffer, selector resolved against the buffer size
    Input(u16),
    Const(Fx),
    Op(ROp, u16, u16),
    Neg(u16),
    Tern(u16, u16, u16),
}

#[derive(Clone, Debug, Serialize, Deserialize)]
pub struct Case {
    /// lengths of the named inputs, laid out one after the other from offset 1 with `gaps`
    pub input_lens: Vec<u8>,
    pub gaps: Vec<u8>,
    /// number of leading Input nodes (the layout circom-witnesscalc emits); further Input nodes
    /// may appear in `body` (scattered layout)
    pub leading_inputs: u8,
    pub body: Vec<GNode>,
    pub outputs: Vec<u16>,
    pub values: Vec<Fx>,
    /// order in which the named inputs are handed to calc_witness
    pub order_rot: u8,
    /// leave the last named input unsupplied (stays zero)
    pub omit_last: bool,
    /// size ladder: a large tail appended to the graph, expanded deterministically from these numbers
    #[serde(default)]
    pub big: Option<Big>,
}

/// Large-graph extension of a case ("any size, any declared input layout"): `nodes` further nodes
/// whose operands reach back near, far and anywhere (so node references cross the 1-, 2- and 3-byte
/// varint boundaries of the stored form), `outputs` further output signals, and one further named
/// input of `in_len` values placed `gap` slots after the others (offsets and lengths beyond 127 /
/// 16383). The expansion is a pure function of these numbers (splitmix64 over `seed`).
#[derive(Clone, Debug, Serialize, Deserialize)]
pub struct Big {
    pub nodes: u32,
    pub outputs: u32,
    pub in_len: u32,
    pub gap: u32,
    pub seed: u64,
}

fn splitmix(x: &mut u64) -> u64 {
    *x = x.wrapping_add(0x9E37_79B9_7F4A_7C15);
    let mut z = *x;
    z = (z ^ (z >> 30)).wrapping_mul(0xBF58_476D_1CE4_E5B9);
    z = (z ^ (z >> 27)).wrapping_mul(0x94D0_49BB_1331_11EB);
    z ^ (z >> 31)
}

struct Built {
    nodes: Vec<Node>,
    outputs: Vec<usize>,
    info: InputSignalsInfo,
    named: Vec<(String, Vec<Fx>)>,
    buffer: Vec<BigUint>,
    scattered: bool,
    leading_covers_all: bool,
}

fn build(case: &Case) -> Built {
    // layout
    let mut info = InputSignalsInfo::new();
    let mut named = vec![];
    let mut offset = 1usize;
    let mut vi = 0usize;
    let nv = case.values.len().max(1);
    for (k, l) in case.input_lens.iter().enumerate() {
        offset += *case.gaps.get(k).unwrap_or(&0) as usize % 3;
        let len = (*l as usize % 5) + 1;
        let name = format!("in{k}");
        info.insert(name.clone(), (offset, len));
        let vals: Vec<Fx> = (0..len)
            .map(|_| {
                let v = case.values.get(vi % nv).copied().unwrap_or(Fx::from_u64(0));
                vi += 1;
                v
            })
            .collect();
        named.push((name, vals));
        offset += len;
    }
    if let Some(bg) = &case.big {
        if bg.in_len > 0 {
            offset += bg.gap as usize;
            let name = "big".to_string();
            info.insert(name.clone(), (offset, bg.in_len as usize));
            let vals: Vec<Fx> = (0..bg.in_len as usize)
                .map(|i| {
                    let v = case.values.get(i % nv).copied().unwrap_or(Fx::from_u64(0));
                    Fx(v.0 + ark_bn254::Fr::from(i as u64))
                })
                .collect();
            named.push((name, vals));
            offset += bg.in_len as usize;
        }
    }
    let size = offset; // input buffer size (index 0 is the constant 1)
    let mut buffer = vec![BigUint::from(0u32); size];
    buffer[0] = BigUint::from(1u32);
    let supplied = if case.omit_last && !named.is_empty() { named.len() - 1 } else { named.len() };
    for (name, vals) in named.iter().take(supplied) {
        let (off, _) = info[name];
        for (i, v) in vals.iter().enumerate() {
            buffer[off + i] = v.big();
        }
    }
    named.truncate(supplied);
    // nodes: leading block of inputs 0..leading, then the body
    let mut nodes: Vec<Node> = vec![];
    let leading = if case.leading_inputs == 255 { size } else { (case.leading_inputs as usize).min(size) };
    for i in 0..leading {
        nodes.push(Node::Input(i));
    }
    let mut scattered = false;
    let mut max_leading = leading;
    for g in &case.body {
        let n = nodes.len();
        let pick = |sel: u16| pick_index(sel, n);
        let node = match g {
            GNode::Input(sel) => {
                let idx = pick_index(*sel, size);
                if nodes.iter().any(|x| !matches!(x, Node::Input(_))) {
                    scattered = true;
                } else {
                    max_leading = max_leading.max(idx + 1);
                }
                Node::Input(idx)
            }
            GNode::Const(f) => Node::MontConstant(f.0),
            _ if n == 0 => Node::MontConstant(ark_bn254::Fr::from(7u64)),
            GNode::Op(op, a, b) => Node::Op(to_impl_op(*op), pick(*a), pick(*b)),
            GNode::Neg(a) => Node::UnoOp(UnoOperation::Neg, pick(*a)),
            GNode::Tern(a, b, c) => Node::TresOp(TresOperation::TernCond, pick(*a), pick(*b), pick(*c)),
        };
        nodes.push(node);
    }
    if nodes.is_empty() {
        nodes.push(Node::MontConstant(ark_bn254::Fr::from(1u64)));
    }
    let mut big_outputs: Vec<usize> = vec![];
    if let Some(bg) = &case.big {
        let mut st = bg.seed;
        let ops: Vec<ROp> = ALL_OPS.iter().copied().filter(|o| *o != ROp::Pow).collect();
        for _ in 0..bg.nodes {
            let n = nodes.len();
            let r = splitmix(&mut st);
            // operand positions: near (last 8), far (first 1/16 of the graph), anywhere
            let mut pos = |st: &mut u64| -> usize {
                let q = splitmix(st);
                match q & 3 {
                    0 | 1 => n - 1 - ((q >> 8) as usize % n.min(8)),
                    2 => (q >> 8) as usize % (n / 16 + 1),
                    _ => (q >> 8) as usize % n,
                }
            };
            let node = match r % 16 {
                0 => Node::Input((r >> 8) as usize % size),
                1 => Node::MontConstant(ark_bn254::Fr::from(r >> 8)),
                2 => Node::UnoOp(UnoOperation::Neg, pos(&mut st)),
                3 => Node::TresOp(TresOperation::TernCond, pos(&mut st), pos(&mut st), pos(&mut st)),
                // half of the binary nodes are Mul / Add / Sub so that values stay varied
                4..=9 => Node::Op(to_impl_op([ROp::Mul, ROp::Add, ROp::Sub][(r >> 8) as usize % 3]), pos(&mut st), pos(&mut st)),
                _ => Node::Op(to_impl_op(ops[(r >> 8) as usize % ops.len()]), pos(&mut st), pos(&mut st)),
            };
            if matches!(node, Node::Input(_)) {
                scattered = true;
            }
            nodes.push(node);
        }
        let n = nodes.len();
        for k in 0..bg.outputs as usize {
            // the last node, then positions spread over the whole graph
            big_outputs.push(if k == 0 { n - 1 } else { (splitmix(&mut st) as usize) % n });
        }
    }
    let mut outputs: Vec<usize> = case.outputs.iter().map(|s| pick_index(*s, nodes.len())).collect();
    outputs.extend(big_outputs);
    // does the leading block (what get_inputs_size looks at) cover the whole declared buffer?
    let leading_max = nodes.iter().take_while(|x| matches!(x, Node::Input(_))).filter_map(|x| if let Node::Input(i) = x { Some(*i + 1) } else { None }).max().unwrap_or(1);
    let _ = max_leading;
    Built { nodes, outputs, info, named, buffer, scattered, leading_covers_all: leading_max >= size }
}

/// direct reference interpretation, node by node
fn interpret(b: &Built) -> Vec<BigUint> {
    let mut vals: Vec<BigUint> = Vec::with_capacity(b.nodes.len());
    for n in &b.nodes {
        let v = match n {
            Node::Input(i) => b.buffer[*i].clone(),
            Node::MontConstant(c) => fr_to_big(c),
            Node::Constant(c) => BigUint::from_bytes_le(&c.to_le_bytes::<32>()),
            Node::Op(op, x, y) => {
                let rop = ALL_OPS.iter().copied().find(|r| to_impl_op(*r) == *op).unwrap();
                co::eval(rop, &vals[*x], &vals[*y])
            }
            Node::UnoOp(_, x) => co::neg(&vals[*x]),
            Node::TresOp(_, x, y, z) => co::terncond(&vals[*x], &vals[*y], &vals[*z]),
        };
        vals.push(v);
    }
    b.outputs.iter().map(|o| vals[*o].clone()).collect()
}

fn gnode() -> BoxedStrategy<GNode> {
    let op = (0..ALL_OPS.len()).prop_map(|i| ALL_OPS[i]).prop_filter("Pow is not a Montgomery operator", |o| *o != ROp::Pow);
    prop_oneof![
        3 => any::<u16>().prop_map(GNode::Input),
        2 => gens::fx().prop_map(GNode::Const),
        10 => (op, any::<u16>(), any::<u16>()).prop_map(|(o, a, b)| GNode::Op(o, a, b)),
        1 => any::<u16>().prop_map(GNode::Neg),
        2 => (any::<u16>(), any::<u16>(), any::<u16>()).prop_map(|(a, b, c)| GNode::Tern(a, b, c)),
    ]
    .boxed()
}

impl Property for C20 {
    type Case = Case;
    fn id(&self) -> &'static str {
        "C20"
    }
    fn rule(&self) -> String {
        "random DAGs of 1..400 nodes (one case in 150 with a tail of up to 3000 further nodes, 400 further outputs and a further named input of up to 400 values up to 300 slots away; fixed size ladder: node counts, output counts, input lengths and input offsets at 2^k-1 / 2^k / 2^k+1 for k = 7, 8, 14, 16, and 1000, 5844, 40000, 100000; 2^21 in the thorough tier) over {Input, MontConstant, every binary operator except Pow, Neg, TernCond} with backward references only, 0..6 named inputs of length 1..5 at non-overlapping offsets (with gaps), a leading Input block as circom-witnesscalc emits plus optionally scattered Input nodes, arbitrary output lists (repeats allowed), boundary-weighted input values, named inputs supplied in a generated order (optionally one omitted); \
         graph::evaluate and calc_witness(serialised graph) must equal a direct BigUint interpretation with the circom operator oracle; deserialize(serialize(g)) must equal g (nodes, signals, input map) and evaluate identically; one case in eight first hands calc_witness a damaged copy of the container (failure contained) and then the intact one. \
         non-trivial = graph with a comparison/shift/bitwise/division/ternary node feeding an output and >= 2 named inputs; distinct by case content".into()
    }
    fn assumptions(&self) -> Vec<String> {
        vec!["operator semantics as in C19 (circom_ops.rs)".into()]
    }
    fn plan(&self, tier: Tier) -> Plan {
        Plan { shards: 16, cases_per_shard: tier.pick(6_000, 400_000), max_shrink_iters: 4096, watchdog_s: tier.pick(900, 7200) }
    }
    fn strategy(&self, tier: Tier, _shard: usize) -> BoxedStrategy<Case> {
        let maxn = tier.pick(120usize, 400usize);
        (
            proptest::collection::vec(any::<u8>(), 0..=6),
            proptest::collection::vec(any::<u8>(), 0..=6),
            prop_oneof![3 => Just(255u8), 1 => any::<u8>()],
            prop_oneof![4 => proptest::collection::vec(gnode(), 0..40), 1 => proptest::collection::vec(gnode(), 40..maxn)],
            proptest::collection::vec(any::<u16>(), 0..12),
            proptest::collection::vec(gens::fx(), 1..12),
            any::<u8>(),
            prop_oneof![5 => Just(false), 1 => Just(true)],
            // one case in 150 carries a mid-size tail (the large sizes are the fixed ladder)
            prop_oneof![
                149 => Just(None),
                1 => (0u32..3000, 0u32..400, 0u32..400, 0u32..300, any::<u64>()).prop_map(|(nodes, outputs, in_len, gap, seed)| Some(Big { nodes, outputs, in_len, gap, seed })),
            ],
        )
            .prop_map(|(input_lens, gaps, leading_inputs, body, outputs, values, order_rot, omit_last, big)| Case { input_lens, gaps, leading_inputs, body, outputs, values, order_rot, omit_last, big })
            .boxed()
    }
    fn check(&self, ctx: &Ctx, case: &Case) -> Outcome {
        let mut o = Outcome::new();
        let b = build(case);
        o.label(if b.scattered { "layout/scattered-inputs" } else { "layout/leading-inputs" });
        if !b.leading_covers_all {
            o.label("layout/leading-block-does-not-cover-buffer");
            if ctx.is_known("graph/inputs-size/leading-block-only") {
                o.exclude("graph/inputs-size/leading-block-only");
                return o;
            }
        }
        o.label(format!("nodes/{}", match b.nodes.len() { 0..=9 => "<10", 10..=49 => "10..49", 50..=999 => "50..999", 1000..=16383 => "1000..16383", _ => ">=16384" }));
        if let Some(bg) = &case.big {
            o.label("big-tail");
            o.label(format!("big-input-len/{}", match bg.in_len { 0 => "none", 1..=127 => "<128", 128..=16383 => "128..16383", _ => ">=16384" }));
            o.label(format!("outputs/{}", match b.outputs.len() { 0..=127 => "<128", 128..=16383 => "128..16383", _ => ">=16384" }));
        }
        // reachability of a non-arithmetic node from an output
        let mut used = vec![false; b.nodes.len()];
        for &x in &b.outputs {
            used[x] = true;
        }
        let mut nonarith = false;
        for i in (0..b.nodes.len()).rev() {
            if !used[i] {
                continue;
            }
            match &b.nodes[i] {
                Node::Op(op, x, y) => {
                    used[*x] = true;
                    used[*y] = true;
                    use graph::Operation::*;
                    if !matches!(op, Mul | Add | Sub) {
                        nonarith = true;
                    }
                }
                Node::UnoOp(_, x) => used[*x] = true,
                Node::TresOp(_, x, y, z) => {
                    used[*x] = true;
                    used[*y] = true;
                    used[*z] = true;
                    nonarith = true;
                }
                _ => {}
            }
        }
        o.nontrivial = nonarith && b.info.len() >= 2;
        let want = interpret(&b);
        // (1) direct evaluation on the declared buffer
        let ubuf: Vec<_> = b.buffer.iter().map(to_u256).collect();
        match guarded(|| graph::evaluate(&b.nodes, &ubuf, &b.outputs)) {
            Ok(got) => {
                let got: Vec<BigUint> = got.iter().map(fr_to_big).collect();
                if got != want {
                    let k = (0..want.len()).find(|k| got.get(*k) != want.get(*k)).unwrap_or(0);
                    vfail!(o, "graph::evaluate differs from the reference interpretation at output {k}: got {:?}, expected {} (graph of {} nodes)", got.get(k), want[k], b.nodes.len());
                    return o;
                }
            }
            Err(p) => {
                vfail!(o, "graph::evaluate panicked on a well-formed graph of {} nodes: {}", b.nodes.len(), p.0);
                return o;
            }
        }
        // (2) storage round trip
        let mut bytes = vec![];
        match guarded(|| serialize_witnesscalc_graph(&mut bytes, &b.nodes, &b.outputs, &b.info)) {
            Ok(Ok(())) => {}
            other => {
                vfail!(o, "serialize_witnesscalc_graph failed: {:?}", other.map(|r| r.map_err(|e| e.to_string())));
                return o;
            }
        }
        // the container is read back through a reader that hands out 1, 7 or 33 bytes per call, or
        // everything at once (a file behind a buffered reader returns short counts at buffer boundaries)
        crate::gens::set_io_style((case_hash(case) % 4) as u8);
        o.label(format!("io-style/{}", crate::gens::io_style()));
        match guarded(|| deserialize_witnesscalc_graph(crate::gens::rd(&bytes))) {
            Ok(Ok((n2, s2, i2))) => {
                if n2 != b.nodes {
                    let k = (0..b.nodes.len()).find(|k| n2.get(*k) != b.nodes.get(*k)).unwrap_or(0);
                    vfail!(o, "round trip changed node {k}: {:?} -> {:?} ({} -> {} nodes)", b.nodes.get(k), n2.get(k), b.nodes.len(), n2.len());
                    return o;
                }
                if s2 != b.outputs {
                    vfail!(o, "round trip changed the signal list: {:?} -> {:?}", b.outputs, s2);
                    return o;
                }
                let a: BTreeMap<_, _> = b.info.iter().collect();
                let c: BTreeMap<_, _> = i2.iter().collect();
                if a != c {
                    vfail!(o, "round trip changed the input map: {a:?} -> {c:?}");
                    return o;
                }
            }
            other => {
                vfail!(o, "deserialize_witnesscalc_graph failed on serializer output ({} bytes): {:?}", bytes.len(), other.map(|r| r.map(|_| ()).map_err(|e| e.to_string())));
                return o;
            }
        }
        // (3) calc_witness on the stored graph with named inputs in a generated order
        let mut named: Vec<(String, Vec<ark_bn254::Fr>)> = b.named.iter().map(|(n, v)| (n.clone(), v.iter().map(|f| f.0).collect())).collect();
        if !named.is_empty() {
            let r = case.order_rot as usize % named.len();
            named.rotate_left(r);
            if case.order_rot & 0x80 != 0 {
                named.reverse();
            }
        }
        // one case in eight: first the same call handed a damaged copy of the container (cut in half /
        // an empty node record / cut 3 bytes short); its failure is contained and must not reach the
        // evaluation of the intact container that follows
        if case_hash(case) % 8 == 0 {
            o.label("after-a-damaged-container");
            let dmg = match (case_hash(case) / 8) % 3 {
                0 => bytes[..bytes.len() / 2].to_vec(),
                1 => crate::rlnh::damaged_graph(0),
                _ => bytes[..bytes.len().saturating_sub(3)].to_vec(),
            };
            let _ = guarded(|| calc_witness(named.clone(), &dmg));
        }
        match guarded(|| calc_witness(named.clone(), &bytes)) {
            Ok(got) => {
                let got: Vec<BigUint> = got.iter().map(fr_to_big).collect();
                if got != want {
                    let k = (0..want.len()).find(|k| got.get(*k) != want.get(*k)).unwrap_or(0);
                    vfail!(o, "calc_witness on the stored graph differs from the reference interpretation at output {k}: got {:?}, expected {}", got.get(k), want[k]);
                }
            }
            Err(p) => vfail!(o, "calc_witness panicked on a well-formed graph ({} nodes, buffer {} entries, scattered inputs: {}, leading block covers buffer: {}): {}", b.nodes.len(), b.buffer.len(), b.scattered, b.leading_covers_all, p.0),
        }
        o.evals = 3;
        let _ = big_to_fr;
        // (3b) one case in eight: a same-length sibling of the stored graph (one constant changed) is
        // evaluated first, then the stored graph again — exclusively, so that no other shard's
        // evaluation falls between the two (anything remembered per process about "the last graph"
        // must be keyed on the whole graph)
        static EXCL: std::sync::RwLock<()> = std::sync::RwLock::new(());
        let sibling = case.order_rot % 8 == 0 && !o.failed();
        let (_shared, _excl);
        if sibling {
            _excl = Some(EXCL.write().unwrap_or_else(|e| e.into_inner()));
            _shared = None;
        } else {
            _shared = Some(EXCL.read().unwrap_or_else(|e| e.into_inner()));
            _excl = None;
        }
        if sibling {
            if let Some(k) = (0..b.nodes.len()).rev().find(|k| matches!(b.nodes[*k], Node::MontConstant(_))) {
                let mut sib = b.nodes.clone();
                if let Node::MontConstant(f) = &mut sib[k] {
                    *f += ark_bn254::Fr::from(1u64);
                }
                let mut sbytes = vec![];
                if serialize_witnesscalc_graph(&mut sbytes, &sib, &b.outputs, &b.info).is_ok() && sbytes.len() == bytes.len() {
                    o.label("same-length-sibling-graph-first");
                    let _ = guarded(|| calc_witness(named.clone(), &sbytes));
                    match guarded(|| calc_witness(named.clone(), &bytes)) {
                        Ok(got) => {
                            let got: Vec<BigUint> = got.iter().map(fr_to_big).collect();
                            if got != want {
                                vfail!(o, "calc_witness on the stored graph, evaluated right after a same-length sibling (constant node {k} changed), differs from the reference interpretation");
                            }
                        }
                        Err(p) => vfail!(o, "calc_witness panicked: {}", p.0),
                    }
                    o.evals += 2;
                }
            }
        }
        // (4) the same stored graph with a second input vector (every supplied value + 1), then the
        // first vector again, back to back on this thread: results must depend on the inputs only
        if !o.failed() && !case.values.is_empty() && !named.is_empty() {
            let mut case2 = case.clone();
            for v in case2.values.iter_mut() {
                *v = Fx(v.0 + ark_bn254::Fr::from(1u64));
            }
            let b2 = build(&case2);
            if b2.nodes == b.nodes && b2.outputs == b.outputs {
                let want2 = interpret(&b2);
                let named2: Vec<(String, Vec<ark_bn254::Fr>)> = b2.named.iter().map(|(n, v)| (n.clone(), v.iter().map(|f| f.0).collect())).collect();
                for (round, (nm, wt)) in [(&named2, &want2), (&named, &want)].into_iter().enumerate() {
                    match guarded(|| calc_witness(nm.clone(), &bytes)) {
                        Ok(got) => {
                            let got: Vec<BigUint> = got.iter().map(fr_to_big).collect();
                            if &got != wt {
                                let k = (0..wt.len()).find(|k| got.get(*k) != wt.get(*k)).unwrap_or(0);
                                vfail!(o, "calc_witness on the same stored graph with {} differs from the reference interpretation at output {k}: got {:?}, expected {}", if round == 0 { "a second input vector (all values + 1)" } else { "the first input vector again" }, got.get(k), wt[k]);
                                break;
                            }
                        }
                        Err(p) => {
                            vfail!(o, "calc_witness panicked on the second evaluation of a stored graph: {}", p.0);
                            break;
                        }
                    }
                    o.evals += 1;
                }
                o.label("second-input-vector");
            }
        }
        o
    }
    fn fixed_part(&self, ctx: &Ctx, stats: &mut Stats) -> Option<(String, Option<Case>)> {
        // size ladder: node counts, output counts, input lengths and offsets one below / at / one above
        // the sizes at which the stored form changes shape (varint widths 2^7, 2^14, 2^21; 2^8, 2^16 for
        // anything kept in a narrow integer), plus the size of the bundled RLN graph's order of magnitude
        let mut sizes: Vec<u32> = vec![];
        for k in [7u32, 8, 14, 16] {
            sizes.extend([(1 << k) - 1, 1 << k, (1 << k) + 1]);
        }
        sizes.extend([1000, 5844, 40_000, 100_000]);
        if ctx.tier == Tier::Thorough {
            sizes.extend([(1 << 21) - 1, 1 << 21, (1 << 21) + 1]);
        }
        let small = |k: usize| (k as u32 % 5) * 3;
        let mut fixed: Vec<Case> = vec![];
        for (k, n) in sizes.iter().copied().enumerate() {
            let base = Case {
                input_lens: vec![2, 0, 4],
                gaps: vec![0, 1, 2],
                leading_inputs: if k % 3 == 2 { 3 } else { 255 },
                body: vec![GNode::Const(Fx::from_u64(5)), GNode::Op(ROp::Add, 0, 65535)],
                outputs: vec![0, 65535],
                values: vec![Fx::from_u64(3), Fx::from_big(&(crate::models::field::p() - 2u32)), Fx::from_u64(1 << 40)],
                order_rot: k as u8,
                omit_last: false,
                big: None,
            };
            // (a) many nodes, few outputs / inputs
            fixed.push(Case { big: Some(Big { nodes: n, outputs: small(k), in_len: small(k + 1), gap: small(k + 2), seed: 1000 + k as u64 }), ..base.clone() });
            if n <= 100_000 {
                // (b) many output signals over a moderate graph; (c) a long named input; (d) a named input far out
                fixed.push(Case { big: Some(Big { nodes: 300 + small(k), outputs: n, in_len: small(k), gap: 0, seed: 2000 + k as u64 }), ..base.clone() });
                fixed.push(Case { big: Some(Big { nodes: 300 + small(k), outputs: 7, in_len: n, gap: small(k), seed: 3000 + k as u64 }), ..base.clone() });
                fixed.push(Case { big: Some(Big { nodes: 300 + small(k), outputs: 7, in_len: 1 + small(k), gap: n, seed: 4000 + k as u64 }), ..base.clone() });
            }
        }
        for c in &fixed {
            let mut out = self.check(ctx, c);
            out.label("fixed-size-ladder");
            stats.record(&out, case_hash(c), || self.sample_view(c));
            if let Some(m) = out.fail {
                return Some((m, Some(c.clone())));
            }
        }
        None
    }
    fn sample_view(&self, case: &Case) -> serde_json::Value {
        let b = build(case);
        serde_json::json!({"nodes": b.nodes.len(), "first_nodes": format!("{:?}", &b.nodes[..b.nodes.len().min(6)]), "outputs_len": b.outputs.len(), "first_outputs": &b.outputs[..b.outputs.len().min(12)], "inputs": b.info.iter().collect::<BTreeMap<_,_>>(), "buffer_len": b.buffer.len(), "scattered": b.scattered, "big": case.big})
    }
}
