//! C15 — the reported empty positions are exactly the unset or deleted ones.

use super::c06::{label_history, run_history};
use super::trees::*;
use crate::engine::*;
use crate::models::tree_model::TreeModel;
use ark_bn254::Fr;
use proptest::prelude::*;
use serde::{Deserialize, Serialize};

pub struct C15;

#[derive(Clone, Debug, Serialize, Deserialize)]
pub struct Case {
    pub tree: TreeCase,
    /// run the pmtree part on a non-temporary location so that Reopen is possible
    pub persistent: bool,
}

pub fn op_any() -> BoxedStrategy<Op> {
    prop_oneof![
        10 => op_basic(),
        6 => op_batch(),
        2 => Just(Op::ComputeRoot),
        2 => Just(Op::Reopen),
    ]
    .boxed()
}

impl Property for C15 {
    type Case = Case;
    fn id(&self) -> &'static str {
        "C15"
    }
    fn rule(&self) -> String {
        "histories of up to 30 operations over every mutating tree operation (set, delete, append, set_range, batch override_range, reset) plus compute_root and, on a non-temporary persistent tree, flush+drop+reopen; after every step get_empty_leaves_indices() (and RLN::get_empty_leaves_indices bytes) must equal the ascending list {i < mark : never written or last operation removed i} of the ideal model. A quarter of the histories have the state read back by a second long-lived thread of the caller (taking turns with the thread that writes). \
         non-trivial = history containing an append, a range write at start>0, a batch, or a reopen; distinct by case content".into()
    }
    fn plan(&self, tier: Tier) -> Plan {
        Plan { shards: 16, cases_per_shard: tier.pick(150, 6_000), max_shrink_iters: 4096, watchdog_s: tier.pick(900, 7200) }
    }
    fn strategy(&self, tier: Tier, _shard: usize) -> BoxedStrategy<Case> {
        (depth_strategy(tier), super::c06::backends_strategy(true), proptest::collection::vec(op_any(), 0..30), any::<bool>())
            .prop_map(|(depth, backends, ops, persistent)| {
                let depth = depth.min(10);
                let has_reopen = ops.iter().any(|o| matches!(o, Op::Reopen));
                Case { tree: TreeCase { depth, backends, ops }, persistent: persistent || has_reopen }
            })
            .boxed()
    }
    fn check(&self, ctx: &Ctx, case: &Case) -> Outcome {
        let mut o = Outcome::new();
        let (range_offset, _, _) = label_history(&case.tree, &mut o);
        let has = |f: fn(&Op) -> bool| case.tree.ops.iter().any(f);
        let reopen = has(|x| matches!(x, Op::Reopen));
        o.nontrivial = range_offset || has(|x| matches!(x, Op::Append(_) | Op::Batch(..))) || reopen;
        // in-memory / temporary backends
        run_history(ctx, &case.tree, Focus::FLAGS, false, &mut o);
        if o.failed() {
            return o;
        }
        if case.persistent {
            o.label("persistent-pmtree");
            let dir = ctx.tmpdir.join(format!("c15-{:016x}-{:?}", case_hash(case), std::thread::current().id()));
            let _ = std::fs::remove_dir_all(&dir);
            match PmPersistent::open(case.tree.depth, dir.clone(), "") {
                Ok(mut b) => {
                    let mut m = TreeModel::new(case.tree.depth, Fr::from(0u64));
                    for (k, op) in case.tree.ops.iter().enumerate() {
                        match step(ctx, &mut b, &mut m, op, Focus::FLAGS, false) {
                            Ok(rep) => {
                                o.evals += rep.evals;
                                for s in rep.skipped_known {
                                    o.exclude(s);
                                }
                            }
                            Err(e) => {
                                vfail!(o, "persistent tree, depth {} step {k}: {e}", case.tree.depth);
                                break;
                            }
                        }
                    }
                    drop(b);
                }
                Err(e) => vfail!(o, "cannot open persistent tree: {e}"),
            }
            let _ = std::fs::remove_dir_all(&dir);
        }
        o
    }
    fn sample_view(&self, case: &Case) -> serde_json::Value {
        let mut mm = TreeModel::new(case.tree.depth, Fr::from(0u64));
        let ops: Vec<String> = case.tree.ops.iter().map(|op| { let r = op.resolve(&mm); r.apply_model(&mut mm); r.describe() }).collect();
        serde_json::json!({"depth": case.tree.depth, "backends": case.tree.backends, "persistent": case.persistent, "ops": ops})
    }
}
