//! C13 — untrusted verification inputs are rejected without crashing, in one encoding.

use crate::engine::*;
use crate::gens::{self, Bytes};
use crate::models::field::p;
use crate::models::{keccak_ref, poseidon_ref};
use crate::pipeline::*;
use num_bigint::BigUint;
use proptest::prelude::*;
use serde::{Deserialize, Serialize};
use std::sync::OnceLock;

pub struct C13;

#[derive(Clone, Copy, Debug, Serialize, Deserialize, PartialEq, Eq)]
pub enum Target {
    Verify,
    VerifyRln,
    VerifyRoots,
    Recover,
}

#[derive(Clone, Debug, Serialize, Deserialize)]
pub enum Mutation {
    None,
    Truncate(u16),
    SignalLen(u8),
    FieldRandom(u8, Vec<u8>),
    Random(Bytes),
    Alias { mask: u8, k: u8 },
    Trailing(Bytes),
    BitFlip(u16),
    RootsRaw(Bytes),
    RootsWithRoot { before: u8, after: u8, cut: u8 },
    /// `n` all-zero (or all-0xff) entries, optionally followed by a partial element
    RootsFill { n: u8, ones: bool, cut: u8 },
}

#[derive(Clone, Debug, Serialize, Deserialize)]
pub struct Case {
    pub golden: u8,
    pub target: Target,
    pub mutation: Mutation,
}

static POOL: OnceLock<Result<Pool, String>> = OnceLock::new();

pub fn pool(ctx: &Ctx) -> Result<&'static Pool, String> {
    let n = ctx.tier.pick(4, 12);
    POOL.get_or_init(|| build_pool(ctx.seed, n, "pool-c13")).as_ref().map_err(|e| e.clone())
}

fn signal_len_value(kind: u8, len: usize, tail: usize) -> u64 {
    match kind % 16 {
        // the real length (or length + tail) with only high bits added: what a reader that looks at a
        // part of the 8-byte field would still take for the real length
        9 => len as u64 + (1u64 << 32),
        10 => len as u64 + (3u64 << 32),
        11 => len as u64 + (1u64 << 16),
        12 => len as u64 + (1u64 << 8),
        13 => len as u64 + (1u64 << 48),
        14 => len as u64 + (1u64 << 63),
        15 => (len + tail) as u64 + (1u64 << 32),
        0 => 0,
        1 => (len as u64).wrapping_sub(1),
        2 => len as u64 + 1,
        3 => 1 << 31,
        4 => 1 << 32,
        5 => 1 << 63,
        6 => u64::MAX,
        7 => (len + tail) as u64,
        _ => u64::MAX - 7,
    }
}

/// build the (possibly malformed) primary input and the roots buffer
fn build_input(g: &Golden, target: Target, m: &Mutation, root: &BigUint) -> (Vec<u8>, Vec<u8>) {
    let mut input = match target {
        Target::Verify => g.msg.clone(),
        Target::Recover => {
            // recovery accepts both forms; use the long one for odd goldens
            if g.req.index % 2 == 0 { g.msg.clone() } else { verify_input(&g.msg, &g.signal) }
        }
        _ => verify_input(&g.msg, &g.signal),
    };
    let mut roots: Vec<u8> = vec![];
    match m {
        Mutation::None => {}
        Mutation::Truncate(sel) => {
            let cut = pick_index(*sel, input.len());
            input.truncate(cut);
        }
        Mutation::SignalLen(kind) => {
            if input.len() >= 296 {
                let tail = 5usize;
                let v = signal_len_value(*kind, g.signal.len(), tail);
                input[288..296].copy_from_slice(&v.to_le_bytes());
                input.extend_from_slice(&[0x11; 5]);
            }
        }
        Mutation::FieldRandom(f, bytes) => {
            // f: 0..3 proof quarters, 4..8 the five values
            let f = (*f % 9) as usize;
            let off = f * 32;
            for (i, b) in bytes.iter().take(32).enumerate() {
                input[off + i] = *b;
            }
        }
        Mutation::Random(b) => input = b.expand(),
        Mutation::Alias { mask, k } => {
            for f in 0..5usize {
                if mask & (1 << f) != 0 {
                    let off = 128 + f * 32;
                    let v = BigUint::from_bytes_le(&input[off..off + 32]);
                    let mut kk = (*k % 4) as u32 + 1;
                    while kk > 0 {
                        let a = &v + p() * kk;
                        if a.bits() <= 256 {
                            let mut bytes = a.to_bytes_le();
                            bytes.resize(32, 0);
                            input[off..off + 32].copy_from_slice(&bytes);
                            break;
                        }
                        kk -= 1;
                    }
                }
            }
        }
        Mutation::Trailing(b) => input.extend(b.expand()),
        Mutation::BitFlip(sel) => {
            let bit = pick_index(*sel, input.len() * 8);
            input[bit / 8] ^= 1 << (bit % 8);
        }
        Mutation::RootsRaw(b) => roots = b.expand(),
        Mutation::RootsFill { n, ones, cut } => {
            roots = vec![if *ones { 0xff } else { 0 }; 32 * ((*n % 4) as usize + 1) + (*cut % 32) as usize];
        }
        Mutation::RootsWithRoot { before, after, cut } => {
            for i in 0..(*before % 4) {
                roots.extend(crate::models::codec_ref::enc_fr(&BigUint::from(1000u32 + i as u32)));
            }
            roots.extend(crate::models::codec_ref::enc_fr(root));
            for i in 0..(*after % 4) {
                roots.extend(crate::models::codec_ref::enc_fr(&(root + 1u32 + i as u32)));
            }
            // a trailing partial element
            roots.extend(std::iter::repeat(0xeeu8).take((*cut % 32) as usize));
        }
    }
    (input, roots)
}

fn check_recover(pool: &Pool, a: &[u8], b: &[u8], o: &mut Outcome) {
    for (x, y) in [(a, b), (b, a)] {
        let mut out = vec![];
        let mut sink = crate::gens::Sink::new();
        let r = guarded(|| pool.rln.recover_id_secret(crate::gens::rd(x), crate::gens::rd(y), &mut sink).map_err(|e| e.to_string()));
        out = sink.data;
        match r {
            Ok(Ok(())) => {
                if !(out.is_empty() || (out.len() == 32 && &BigUint::from_bytes_le(&out) < p())) {
                    vfail!(o, "recover_id_secret wrote {} bytes that are neither empty nor one canonical field element", out.len());
                    return;
                }
            }
            Ok(Err(_)) => {}
            Err(pn) => {
                vfail!(o, "recover_id_secret panicked on an input of {} / {} bytes: {}", x.len(), y.len(), pn.0);
                return;
            }
        }
    }
}

impl Property for C13 {
    type Case = Case;
    fn id(&self) -> &'static str {
        "C13"
    }
    fn rule(&self) -> String {
        "byte strings for verify / verify_rln_proof / verify_with_roots (message and roots buffers) / recover_id_secret (both buffers; each altered message is paired with another member's message, with itself and — in both orders — with the unaltered message it was derived from, which yields equal x with different y), derived from a pool of accepted messages: truncation to a generated length (and every truncation length, enumerated, for the first pool message), declared signal length in {0, len-1, len+1, 2^31, 2^32, 2^63, u64::MAX-7, u64::MAX, len+tail, len + 2^k for k in 8/16/32/48/63, len + 3*2^32}, random bytes in one 32-byte field, fully random strings of length 0..600+, aliases v+k*p (k=1..4) of any subset of the five public values, single bit flips, trailing garbage, arbitrary roots buffers and root sets with a trailing partial element. \
         Oracle: never a panic; true only if proof and value bytes are identical to the accepted message's canonical bytes, Keccak_ref(signal) = x and the root condition holds; and an input that still is the accepted message must be accepted. A quarter of the cases have every verification call made by a second long-lived thread of the caller (taking turns with the thread that proves and changes the tree). \
         non-trivial = truncation inside a field, an inconsistent length field, an alias, a bit flip or random field content; distinct by case content".into()
    }
    fn assumptions(&self) -> Vec<String> {
        vec![
            "Groth16 soundness and non-malleability under random mutation: a mutated proof or public value is assumed not to verify".into(),
            "trailing bytes after the signal are not an encoding of a public value and are allowed".into(),
        ]
    }
    fn plan(&self, tier: Tier) -> Plan {
        Plan { shards: 16, cases_per_shard: tier.pick(4_000, 150_000), max_shrink_iters: 256, watchdog_s: tier.pick(1200, 7200) }
    }
    fn selftest(&self, ctx: &Ctx) -> Result<(), String> {
        keccak_ref::selftest()?;
        poseidon_ref::selftest()?;
        pool(ctx).map(|_| ())
    }
    fn strategy(&self, _tier: Tier, _shard: usize) -> BoxedStrategy<Case> {
        let target = prop_oneof![2 => Just(Target::Verify), 4 => Just(Target::VerifyRln), 3 => Just(Target::VerifyRoots), 2 => Just(Target::Recover)];
        let mutation = prop_oneof![
            1 => Just(Mutation::None),
            4 => any::<u16>().prop_map(Mutation::Truncate),
            3 => any::<u8>().prop_map(Mutation::SignalLen),
            3 => (any::<u8>(), proptest::collection::vec(any::<u8>(), 32)).prop_map(|(f, b)| Mutation::FieldRandom(f, b)),
            3 => gens::bytes(2000).prop_map(Mutation::Random),
            4 => (1u8..32, any::<u8>()).prop_map(|(mask, k)| Mutation::Alias { mask, k }),
            1 => gens::bytes(300).prop_map(Mutation::Trailing),
            3 => any::<u16>().prop_map(Mutation::BitFlip),
            2 => gens::bytes(200).prop_map(Mutation::RootsRaw),
            1 => (any::<u8>(), any::<bool>(), prop_oneof![Just(0u8), any::<u8>()]).prop_map(|(n, ones, cut)| Mutation::RootsFill { n, ones, cut }),
            2 => (any::<u8>(), any::<u8>(), any::<u8>()).prop_map(|(before, after, cut)| Mutation::RootsWithRoot { before, after, cut }),
        ];
        (any::<u8>(), target, mutation).prop_map(|(golden, target, mutation)| Case { golden, target, mutation }).boxed()
    }
    fn check(&self, ctx: &Ctx, c: &Case) -> Outcome {
        let mut o = Outcome::new();
        let pool = match pool(ctx) {
            Ok(p) => p,
            Err(e) => {
                vfail!(o, "message pool unavailable: {e}");
                return o;
            }
        };
        let g = &pool.msgs[c.golden as usize % pool.msgs.len()];
        let (input, roots) = build_input(g, c.target, &c.mutation, &pool.root);
        crate::gens::set_io_style((case_hash(c) % 4) as u8);
        o.label(format!("io-style/{}", crate::gens::io_style()));
        // a quarter of the cases: verification is done by a second long-lived thread of the caller
        let second = (case_hash(c) / 4) % 4 == 1;
        crate::pipeline::verify_on_second_thread(second);
        if second {
            o.label("verified-by-a-second-thread");
        }
        o.label(format!("target/{:?}", c.target));
        let mname = format!("{:?}", c.mutation);
        let mname = mname.split(|ch: char| !ch.is_alphanumeric()).next().unwrap_or("").to_string();
        o.label(format!("mutation/{mname}"));
        o.nontrivial = !matches!(c.mutation, Mutation::None | Mutation::Trailing(_) | Mutation::RootsWithRoot { .. });
        match c.target {
            Target::Verify => {
                let v = call_verify(&pool.rln, &input);
                let acc = acceptability(g, &input, Mode::Raw);
                // `verify` reads exactly the first 288 bytes; anything after them is not part of the message
                if let Some(m) = judge("verify", &v, &acc, true) {
                    vfail!(o, "{m} [input {} bytes, mutation {mname}]", input.len());
                }
            }
            Target::VerifyRln => {
                let v = call_verify_rln(&pool.rln, &input);
                let acc = acceptability(g, &input, Mode::Tree(&pool.root));
                if let Some(m) = judge("verify_rln_proof", &v, &acc, true) {
                    vfail!(o, "{m} [input {} bytes, mutation {mname}]", input.len());
                }
            }
            Target::VerifyRoots => {
                let v = call_verify_roots(&pool.rln, &input, &roots);
                let acc = acceptability(g, &input, Mode::Roots(&roots));
                if let Some(m) = judge("verify_with_roots", &v, &acc, true) {
                    vfail!(o, "{m} [input {} bytes, roots {} bytes, mutation {mname}]", input.len(), roots.len());
                }
            }
            Target::Recover => {
                let other = &pool.msgs[(c.golden as usize + 1) % pool.msgs.len()];
                check_recover(pool, &input, &other.msg, &mut o);
                if !o.failed() {
                    check_recover(pool, &input, &input, &mut o);
                }
                // the altered message against the unaltered one it was derived from: same external
                // nullifier and (unless the alteration hit it) same x, possibly another y
                if !o.failed() {
                    let original = verify_input(&g.msg, &g.signal);
                    check_recover(pool, &input, &original, &mut o);
                    if !o.failed() {
                        check_recover(pool, &original, &input, &mut o);
                    }
                }
            }
        }
        o
    }
    fn fixed_part(&self, ctx: &Ctx, stats: &mut Stats) -> Option<(String, Option<Case>)> {
        let pool = pool(ctx).ok()?;
        // every truncation length of the first message on every target
        let g = &pool.msgs[0];
        let full = verify_input(&g.msg, &g.signal);
        for target in [Target::Verify, Target::VerifyRln, Target::VerifyRoots, Target::Recover] {
            for cut in 0..=full.len() {
                let sel = if full.is_empty() { 0 } else { (((cut as u64) << 16) / (full.len() as u64 + 1)) as u16 };
                let _ = sel;
                let input = &full[..cut];
                stats.evaluations += 1;
                let fail = match target {
                    Target::Verify => judge("verify", &call_verify(&pool.rln, input), &acceptability(g, input, Mode::Raw), true),
                    Target::VerifyRln => judge("verify_rln_proof", &call_verify_rln(&pool.rln, input), &acceptability(g, input, Mode::Tree(&pool.root)), true),
                    Target::VerifyRoots => judge("verify_with_roots", &call_verify_roots(&pool.rln, input, &[]), &acceptability(g, input, Mode::Roots(&[])), true),
                    Target::Recover => {
                        let mut o = Outcome::new();
                        check_recover(pool, input, &g.msg, &mut o);
                        o.fail
                    }
                };
                if let Some(m) = fail {
                    return Some((format!("{m} [first pool message truncated to {cut} of {} bytes]", full.len()), Some(Case { golden: 0, target, mutation: Mutation::Truncate(((cut * 65536) / (full.len() + 1)) as u16) })));
                }
            }
        }
        // every single alias of every pool message, k = 1
        for (gi, _g) in pool.msgs.iter().enumerate() {
            for f in 0..5u8 {
                for target in [Target::Verify, Target::VerifyRln, Target::VerifyRoots] {
                    let c = Case { golden: gi as u8, target, mutation: Mutation::Alias { mask: 1 << f, k: 0 } };
                    let mut out = self.check(ctx, &c);
                    out.label("fixed/all-single-aliases");
                    stats.record(&out, case_hash(&c), || self.sample_view(&c));
                    if let Some(m) = out.fail {
                        return Some((m, Some(c)));
                    }
                }
            }
            // the untouched message is accepted by all three
            for target in [Target::Verify, Target::VerifyRln, Target::VerifyRoots] {
                let c = Case { golden: gi as u8, target, mutation: Mutation::None };
                let out = self.check(ctx, &c);
                stats.record(&out, case_hash(&c), || self.sample_view(&c));
                if let Some(m) = out.fail {
                    return Some((m, Some(c)));
                }
            }
        }
        *stats.labels.entry("fixed/every-truncation-length".into()).or_default() += 4 * (full.len() as u64 + 1);
        None
    }
    fn sample_view(&self, c: &Case) -> serde_json::Value {
        let m = format!("{:?}", c.mutation);
        serde_json::json!({"golden": c.golden, "target": format!("{:?}", c.target), "mutation": truncate(&m, 160)})
    }
}
