//! C06 — each Merkle tree backend is observationally equal to the ideal hash tree.

use super::trees::*;
use crate::engine::*;
use crate::models::tree_model::TreeModel;
use ark_bn254::Fr;
use proptest::prelude::*;

pub struct C06;

pub fn backends_strategy(with_rln: bool) -> BoxedStrategy<Vec<BackendKind>> {
    use BackendKind::*;
    if with_rln {
        prop_oneof![
            6 => Just(vec![Full, Optimal]),
            2 => Just(vec![Full, Optimal, Pm]),
            1 => Just(vec![Full, Optimal, Pm, RlnApi]),
            1 => Just(vec![Pm, RlnApi]),
        ]
        .boxed()
    } else {
        prop_oneof![3 => Just(vec![Full, Optimal]), 1 => Just(vec![Full, Optimal, Pm])].boxed()
    }
}

/// run a history on every backend of the case; returns the failure (if any)
pub fn run_history(ctx: &Ctx, case: &TreeCase, focus: Focus, batch_panic_is_violation: bool, o: &mut Outcome) {
    run_history_inner(ctx, case, focus, batch_panic_is_violation, o);
    observe_on_helper(false);
}

fn run_history_inner(ctx: &Ctx, case: &TreeCase, focus: Focus, batch_panic_is_violation: bool, o: &mut Outcome) {
    // the RLN byte API reads its arguments / writes its results through readers and writers that move
    // 1, 7 or 33 bytes per call, or everything at once (chosen from the case content)
    crate::gens::set_io_style((case_hash(case) % 4) as u8);
    // a quarter of the histories: the state is read back by a second long-lived thread of the caller
    let second_thread = (case_hash(case) / 4) % 4 == 1;
    observe_on_helper(second_thread);
    if second_thread {
        o.label("state-read-by-a-second-thread");
    }
    let only = std::env::var("VERIF_DEBUG_BACKENDS").ok();
    for kind in &case.backends {
        if let Some(f) = &only {
            if !f.split(',').any(|x| x == kind.name()) {
                continue;
            }
        }
        let mut b = match guarded(|| make_backend(*kind, case.depth)) {
            Ok(b) => b,
            Err(p) => {
                vfail!(o, "{}: constructing a depth-{} tree panicked: {}", kind.name(), case.depth, p.0);
                return;
            }
        };
        let mut m = TreeModel::new(case.depth, Fr::from(0u64));
        // a fresh tree must already equal the fresh model
        if let Err(e) = compare(b.as_mut(), &m, focus, &[]) {
            vfail!(o, "fresh depth-{} tree: {e}", case.depth);
            return;
        }
        for (k, op) in case.ops.iter().enumerate() {
            let is_batch = matches!(op, Op::Batch(..) | Op::Init(..));
            match step(ctx, b.as_mut(), &mut m, op, focus, is_batch && batch_panic_is_violation) {
                Ok(rep) => {
                    o.evals += rep.evals;
                    for s in rep.skipped_known {
                        o.exclude(s);
                    }
                    if rep.rejected_ok {
                        o.label("rejected-with-state-unchanged");
                    }
                }
                Err(e) => {
                    vfail!(o, "depth {} step {k}: {e}", case.depth);
                    return;
                }
            }
        }
    }
}

pub fn label_history(case: &TreeCase, o: &mut Outcome) -> (bool, bool, bool) {
    // resolve against a plain model to classify the shapes that actually occurred
    let mut m = TreeModel::new(case.depth, Fr::from(0u64));
    let mut range_offset = false;
    let mut crossing = false;
    let mut delete_then_write = false;
    let mut deleted = std::collections::BTreeSet::new();
    for op in &case.ops {
        let r = op.resolve(&m);
        match &r {
            ROp::SetRange(s, v) if !v.is_empty() && m.batch_fits(*s, v.len()) => {
                if *s > 0 {
                    range_offset = true;
                }
                if v.len() >= 2 && (*s >> 1) != ((*s + v.len() - 1) >> 1) && (*s % 2 == 1 || (*s + v.len()) % 2 == 1) {
                    crossing = true;
                }
                if (0..v.len()).any(|k| deleted.contains(&(s + k))) {
                    delete_then_write = true;
                }
            }
            ROp::Set(i, _) if deleted.contains(i) => delete_then_write = true,
            ROp::Delete(i) if *i < m.mark => {
                deleted.insert(*i);
            }
            _ => {}
        }
        o.label(format!("op/{}", r.kind()));
        r.apply_model(&mut m);
    }
    if range_offset {
        o.label("range-write-at-offset");
    }
    if crossing {
        o.label("range-write-unaligned-crossing");
    }
    if delete_then_write {
        o.label("delete-then-write");
    }
    (range_offset, crossing, delete_then_write)
}

impl Property for C06 {
    type Case = TreeCase;
    fn id(&self) -> &'static str {
        "C06"
    }
    fn rule(&self) -> String {
        "histories of up to 30 operations over {set, delete, append, set_range, reset} with positions drawn from {0, uniform, mark, mark±1, cap-1, near end, cap, cap+1, usize::MAX}, depth 1..6 (all leaves and all subtree roots observed after every step) and 10/20 (touched positions, siblings, probes); A quarter of the histories have the state read back by a second long-lived thread of the caller (taking turns with the thread that writes). \
         non-trivial = history with a range write at start>0 or unaligned across a pair boundary, or a delete followed by a write of that position, on >=2 backends; distinct by case content".into()
    }
    fn assumptions(&self) -> Vec<String> {
        vec!["the pair hash used by the ideal tree is the tree's own Hasher (judged separately by C09)".into()]
    }
    fn plan(&self, tier: Tier) -> Plan {
        Plan { shards: 16, cases_per_shard: tier.pick(150, 6_000), max_shrink_iters: 4096, watchdog_s: tier.pick(900, 7200) }
    }
    fn strategy(&self, tier: Tier, _shard: usize) -> BoxedStrategy<TreeCase> {
        (depth_strategy(tier), backends_strategy(true), proptest::collection::vec(op_basic(), 0..30))
            .prop_map(|(depth, backends, ops)| {
                // the big in-memory trees are expensive to build at depth 20: keep pm/rln there
                let backends = if depth == 20 { vec![BackendKind::Optimal, BackendKind::Pm] } else { backends };
                let mut ops = ops;
                tame_for_depth20(depth, &mut ops);
                TreeCase { depth, backends, ops }
            })
            .boxed()
    }
    fn check(&self, ctx: &Ctx, case: &TreeCase) -> Outcome {
        let mut o = Outcome::new();
        let (a, b, c) = label_history(case, &mut o);
        o.label(format!("depth/{}", case.depth));
        for k in &case.backends {
            o.label(format!("backend/{}", k.name()));
        }
        o.nontrivial = (a || b || c) && case.backends.len() >= 2;
        run_history(ctx, case, Focus::STATE, false, &mut o);
        o
    }
    fn sample_view(&self, case: &TreeCase) -> serde_json::Value {
        let m = TreeModel::new(case.depth, Fr::from(0u64));
        let mut mm = m;
        let ops: Vec<String> = case.ops.iter().map(|op| { let r = op.resolve(&mm); r.apply_model(&mut mm); r.describe() }).collect();
        serde_json::json!({"depth": case.depth, "backends": case.backends, "ops": ops})
    }
}
