//! C19 — witness-graph operators follow circom's field semantics on every operand.

use crate::engine::*;
use crate::gens;
use crate::models::circom_ops::{self as co, Op as ROp, ALL_OPS};
use crate::models::field::{big_to_fr, big_to_le32, c19_grid, fr_to_big, p, Fx};
use num_bigint::BigUint;
use proptest::prelude::*;
use rln::circuit::iden3calc::graph::{Operation, TresOperation, UnoOperation};
use ruint::aliases::U256;
use serde::{Deserialize, Serialize};

pub struct C19;

#[derive(Clone, Debug, Serialize, Deserialize)]
pub enum Case {
    Duo(ROp, Fx, Fx),
    Neg(Fx),
    Id(Fx),
    Tern(Fx, Fx, Fx),
}

pub fn to_impl_op(op: ROp) -> Operation {
    match op {
        ROp::Mul => Operation::Mul,
        ROp::Div => Operation::Div,
        ROp::Add => Operation::Add,
        ROp::Sub => Operation::Sub,
        ROp::Pow => Operation::Pow,
        ROp::Idiv => Operation::Idiv,
        ROp::Mod => Operation::Mod,
        ROp::Eq => Operation::Eq,
        ROp::Neq => Operation::Neq,
        ROp::Lt => Operation::Lt,
        ROp::Gt => Operation::Gt,
        ROp::Leq => Operation::Leq,
        ROp::Geq => Operation::Geq,
        ROp::Land => Operation::Land,
        ROp::Lor => Operation::Lor,
        ROp::Shl => Operation::Shl,
        ROp::Shr => Operation::Shr,
        ROp::Bor => Operation::Bor,
        ROp::Band => Operation::Band,
        ROp::Bxor => Operation::Bxor,
    }
}

pub fn to_u256(b: &BigUint) -> U256 {
    U256::from_le_bytes(big_to_le32(b))
}
pub fn from_u256(u: &U256) -> BigUint {
    BigUint::from_bytes_le(&u.to_le_bytes::<32>())
}

/// input classes (computed from the operands only) used as known-finding signatures
pub fn classes(evaluator: &str, op: ROp, a: &BigUint, b: &BigUint) -> Vec<String> {
    let mut v = vec![];
    let name = format!("{op:?}").to_lowercase();
    let big254 = BigUint::from(254u32);
    match op {
        ROp::Shl | ROp::Shr => {
            if b >= &big254 {
                let nb = p() - b;
                if nb < big254 {
                    v.push(format!("graph/{evaluator}/{name}/negative-shift"));
                } else {
                    v.push(format!("graph/{evaluator}/{name}/shift>=254"));
                }
            } else if op == ROp::Shl {
                let sh = a << (b.to_u64_digits().first().copied().unwrap_or(0) as usize);
                if &sh >= p() {
                    v.push(format!("graph/{evaluator}/{name}/result-needs-reduction"));
                }
            }
        }
        ROp::Bor | ROp::Bxor | ROp::Band => {
            let r = match op {
                ROp::Bor => a | b,
                ROp::Bxor => a ^ b,
                _ => a & b,
            };
            if &r == p() {
                v.push(format!("graph/{evaluator}/{name}/result==p"));
            } else if &r > p() {
                v.push(format!("graph/{evaluator}/{name}/result>p"));
            }
        }
        ROp::Idiv | ROp::Mod | ROp::Div => {
            if b == &BigUint::from(0u32) {
                v.push(format!("graph/{evaluator}/{name}/by-zero"));
            }
        }
        _ => {}
    }
    v
}

fn eval_duo(ctx: &Ctx, op: ROp, a: &BigUint, b: &BigUint, o: &mut Outcome) {
    let want = co::eval(op, a, b);
    debug_assert!(&want < p());
    let iop = to_impl_op(op);
    // Montgomery evaluator: every operator except Pow
    if op != ROp::Pow {
        let cls = classes("fr", op, a, b);
        if let Some(k) = cls.iter().find(|c| ctx.is_known(c)) {
            o.exclude(k.clone());
        } else {
            let (fa, fb) = (big_to_fr(a), big_to_fr(b));
            match guarded(|| iop.eval_fr(fa, fb)) {
                Ok(got) => {
                    let g = fr_to_big(&got);
                    if g != want {
                        vfail!(o, "Montgomery evaluator: {op:?}({a}, {b}) = {g}, circom semantics give {want} [{}]", cls.join(","));
                        return;
                    }
                }
                Err(pn) => {
                    vfail!(o, "Montgomery evaluator: {op:?}({a}, {b}) panicked: {} (circom: {want}) [{}]", pn.0, cls.join(","));
                    return;
                }
            }
        }
    }
    // integer evaluator: all operators
    let cls = classes("int", op, a, b);
    if let Some(k) = cls.iter().find(|c| ctx.is_known(c)) {
        o.exclude(k.clone());
    } else {
        let (ua, ub) = (to_u256(a), to_u256(b));
        match guarded(|| iop.eval(ua, ub)) {
            Ok(got) => {
                let g = from_u256(&got);
                if g != want {
                    vfail!(o, "integer evaluator: {op:?}({a}, {b}) = {g}{}, circom semantics give {want} [{}]", if &g >= p() { " (not canonical)" } else { "" }, cls.join(","));
                }
            }
            Err(pn) => vfail!(o, "integer evaluator: {op:?}({a}, {b}) panicked: {} (circom: {want}) [{}]", pn.0, cls.join(",")),
        }
    }
    o.evals = 2;
}

fn eval_case(ctx: &Ctx, case: &Case, o: &mut Outcome) {
    match case {
        Case::Duo(op, a, b) => eval_duo(ctx, *op, &a.big(), &b.big(), o),
        Case::Neg(a) => {
            let want = co::neg(&a.big());
            match guarded(|| UnoOperation::Neg.eval_fr(a.0)) {
                Ok(g) if fr_to_big(&g) == want => {}
                other => {
                    vfail!(o, "Montgomery evaluator: Neg({a:?}) = {:?}, expected {want}", other.map(|g| fr_to_big(&g)));
                    return;
                }
            }
            match guarded(|| UnoOperation::Neg.eval(to_u256(&a.big()))) {
                Ok(g) if from_u256(&g) == want => {}
                other => vfail!(o, "integer evaluator: Neg({a:?}) = {:?}, expected {want}", other.map(|g| from_u256(&g))),
            }
            o.evals = 2;
        }
        Case::Id(a) => match guarded(|| UnoOperation::Id.eval(to_u256(&a.big()))) {
            Ok(g) if from_u256(&g) == a.big() => {}
            other => vfail!(o, "integer evaluator: Id({a:?}) = {:?}", other.map(|g| from_u256(&g))),
        },
        Case::Tern(a, b, c) => {
            let want = co::terncond(&a.big(), &b.big(), &c.big());
            match guarded(|| TresOperation::TernCond.eval_fr(a.0, b.0, c.0)) {
                Ok(g) if fr_to_big(&g) == want => {}
                other => {
                    vfail!(o, "Montgomery evaluator: TernCond({a:?},{b:?},{c:?}) = {:?}, expected {want}", other.map(|g| fr_to_big(&g)));
                    return;
                }
            }
            match guarded(|| TresOperation::TernCond.eval(to_u256(&a.big()), to_u256(&b.big()), to_u256(&c.big()))) {
                Ok(g) if from_u256(&g) == want => {}
                other => vfail!(o, "integer evaluator: TernCond({a:?},{b:?},{c:?}) = {:?}, expected {want}", other.map(|g| from_u256(&g))),
            }
            o.evals = 2;
        }
    }
}

fn nontrivial_duo(op: ROp, a: &BigUint, b: &BigUint) -> bool {
    let two64 = BigUint::from(1u32) << 64usize;
    a >= &two64 || b >= &two64 || (matches!(op, ROp::Shl | ROp::Shr) && b >= &BigUint::from(64u32)) || (matches!(op, ROp::Add | ROp::Mul) && (a + b) >= *p())
}

pub fn quick_ks() -> Vec<usize> {
    vec![8, 16, 31, 32, 33, 63, 64, 65, 127, 128, 129, 191, 192, 193, 252, 253, 254]
}

impl Property for C19 {
    type Case = Case;
    fn id(&self) -> &'static str {
        "C19"
    }
    fn rule(&self) -> String {
        "enumerated part: every operator x every ordered pair of the boundary grid {0,1,2,2^k-1,2^k,2^k+1,(p-1)/2,(p+1)/2,p-2,p-1} (quick: k in {8,16,31..33,63..65,127..129,191..193,252..254}; thorough: every k in 8..254, exhaustive) on both evaluators, unary and ternary operators on the grid; generated part: operator x boundary-weighted/uniform operands, near-boundary perturbations and small shift counts. Oracle: circom operator semantics on BigUint (DESIGN Appendix A); result must be equal and canonical; a panic is a violation. \
         non-trivial = an operand >= 2^64, a shift count >= 64, or an Add/Mul whose unreduced result is >= p; distinct by (operator, operands)".into()
    }
    fn assumptions(&self) -> Vec<String> {
        vec!["circom_ops.rs transcribes circom's documented operator semantics (field ops, signed comparison around p/2, integer \\ and %, 254-bit masked shifts with the negative-shift rule, masked bitwise ops reduced mod p, zero for division by zero)".into()]
    }
    fn plan(&self, tier: Tier) -> Plan {
        Plan { shards: 16, cases_per_shard: tier.pick(60_000, 1_000_000), max_shrink_iters: 2048, watchdog_s: tier.pick(900, 7200) }
    }
    fn strategy(&self, _tier: Tier, _shard: usize) -> BoxedStrategy<Case> {
        let op = (0..ALL_OPS.len()).prop_map(|i| ALL_OPS[i]);
        let shiftop = prop_oneof![Just(ROp::Shl), Just(ROp::Shr)];
        let small = (0u64..300).prop_map(Fx::from_u64);
        let negsmall = (1u64..300).prop_map(|d| Fx::from_big(&(p() - BigUint::from(d))));
        prop_oneof![
            8 => (op.clone(), gens::fx(), gens::fx()).prop_map(|(o, a, b)| Case::Duo(o, a, b)),
            3 => (shiftop.clone(), gens::fx(), small).prop_map(|(o, a, b)| Case::Duo(o, a, b)),
            1 => (shiftop, gens::fx(), negsmall).prop_map(|(o, a, b)| Case::Duo(o, a, b)),
            2 => (op, gens::fx()).prop_map(|(o, a)| Case::Duo(o, a, a)),
            1 => gens::fx().prop_map(Case::Neg),
            1 => gens::fx().prop_map(Case::Id),
            1 => (gens::fx(), gens::fx(), gens::fx()).prop_map(|(a, b, c)| Case::Tern(a, b, c)),
        ]
        .boxed()
    }
    fn check(&self, ctx: &Ctx, case: &Case) -> Outcome {
        let mut o = Outcome::new();
        match case {
            Case::Duo(op, a, b) => {
                o.label(format!("op/{op:?}"));
                o.nontrivial = nontrivial_duo(*op, &a.big(), &b.big());
            }
            Case::Neg(a) | Case::Id(a) => {
                o.label("op/uno");
                o.nontrivial = a.big() >= (BigUint::from(1u32) << 64usize);
            }
            Case::Tern(..) => {
                o.label("op/terncond");
                o.nontrivial = true;
            }
        }
        eval_case(ctx, case, &mut o);
        o
    }
    fn fixed_part(&self, ctx: &Ctx, stats: &mut Stats) -> Option<(String, Option<Case>)> {
        let ks: Vec<usize> = match ctx.tier {
            Tier::Quick => quick_ks(),
            Tier::Thorough => (8..=254).collect(),
        };
        let grid = c19_grid(&ks);
        let survey = std::env::var("VERIF_SURVEY").is_ok();
        let mut first: Option<(String, Option<Case>)> = None;
        let mut seen_sigs = std::collections::BTreeMap::<String, String>::new();
        // parallel over the first operand
        let results: Vec<(u64, u64, std::collections::BTreeMap<String, u64>, Vec<(String, Case)>)> = std::thread::scope(|s| {
            let chunks: Vec<Vec<BigUint>> = grid.chunks(grid.len().div_ceil(16)).map(|c| c.to_vec()).collect();
            let handles: Vec<_> = chunks
                .into_iter()
                .map(|chunk| {
                    let grid = &grid;
                    s.spawn(move || {
                        let mut evals = 0u64;
                        let mut nt = 0u64;
                        let mut excl = std::collections::BTreeMap::<String, u64>::new();
                        let mut fails = vec![];
                        for a in &chunk {
                            for b in grid.iter() {
                                for op in ALL_OPS {
                                    let mut o = Outcome::new();
                                    eval_duo(ctx, op, a, b, &mut o);
                                    evals += 2;
                                    if nontrivial_duo(op, a, b) {
                                        nt += 1;
                                    }
                                    for e in o.excluded {
                                        *excl.entry(e).or_default() += 1;
                                    }
                                    if let Some(m) = o.fail {
                                        if fails.len() < 2000 {
                                            fails.push((m, Case::Duo(op, Fx::from_big(a), Fx::from_big(b))));
                                        }
                                    }
                                }
                            }
                        }
                        (evals, nt, excl, fails)
                    })
                })
                .collect();
            handles.into_iter().map(|h| h.join().unwrap()).collect()
        });
        let mut nt_total = 0u64;
        for (evals, nt, excl, fails) in results {
            stats.evaluations += evals;
            nt_total += nt;
            for (k, v) in excl {
                *stats.excluded.entry(k).or_default() += v;
            }
            for (m, c) in fails {
                if survey {
                    let key = m.split('[').last().unwrap_or("").to_string() + &m.split('(').next().unwrap_or("").to_string();
                    seen_sigs.entry(key).or_insert(m.clone());
                }
                if first.is_none() {
                    first = Some((m, Some(c)));
                }
            }
        }
        // unary / ternary on the grid
        for a in &grid {
            for c in [Case::Neg(Fx::from_big(a)), Case::Id(Fx::from_big(a))] {
                let mut o = Outcome::new();
                eval_case(ctx, &c, &mut o);
                stats.evaluations += 2;
                if let (Some(m), None) = (o.fail, &first) {
                    first = Some((m, Some(c)));
                }
            }
        }
        let small: Vec<&BigUint> = grid.iter().step_by((grid.len() / 12).max(1)).collect();
        for a in &small {
            for b in &small {
                for c in &small {
                    let cs = Case::Tern(Fx::from_big(a), Fx::from_big(b), Fx::from_big(c));
                    let mut o = Outcome::new();
                    eval_case(ctx, &cs, &mut o);
                    stats.evaluations += 2;
                    if let (Some(m), None) = (o.fail, &first) {
                        first = Some((m, Some(cs)));
                    }
                }
            }
        }
        // the grid pairs are distinct non-trivial cases by construction: account for them with
        // synthetic hashes so that distinct_nontrivial reflects the enumerated part as well
        for i in 0..nt_total {
            stats.nontrivial_hashes.insert(0x9000_0000_0000_0000u64 ^ i);
        }
        stats.exhaustive = true;
        stats.extra.insert("grid_values".into(), serde_json::json!(grid.len()));
        stats.extra.insert("grid_tuples_enumerated".into(), serde_json::json!((grid.len() * grid.len() * ALL_OPS.len()) as u64));
        stats.samples.push(serde_json::json!({"grid_pair_example": ["Shl", grid[grid.len() - 1].to_string(), "1"]}));
        if survey {
            for (k, m) in &seen_sigs {
                println!("SURVEY {k} :: {}", truncate(m, 300));
            }
        }
        first
    }
}
