//! C01 — every proof generated for a valid membership and message verifies.

use crate::engine::*;
use crate::models::codec_ref as cr;
use crate::models::field::{big_to_fr, fr_to_big, p, Fx};
use crate::models::tree_model::TreeModel;
use crate::models::{keccak_ref, poseidon_ref};
use crate::pipeline::*;
use crate::refwit::{self, RefOut};
use crate::rlnh::*;
use ark_bn254::Fr;
use ark_serialize::CanonicalSerialize;
use num_bigint::{BigInt, BigUint};
use proptest::prelude::*;
use rln::public::RLN;
use serde::{Deserialize, Serialize};
use std::io::Cursor;

pub struct C01;

#[derive(Clone, Copy, Debug, Serialize, Deserialize, PartialEq, Eq)]
pub enum Entry {
    FromTree,
    FromWitness,
    RawProve,
    ExternalWitness,
}

#[derive(Clone, Copy, Debug, Serialize, Deserialize, PartialEq, Eq)]
pub enum Where {
    Sibling,
    OtherHalf,
    Neighbour,
    Uniform(u32),
    First,
    Last,
}

#[derive(Clone, Debug, Serialize, Deserialize)]
pub enum SideOp {
    Set(Where, u8),
    Delete(Where),
    Range(Where, Vec<u8>),
    /// ask the tree for the prover's membership path (a read; nothing may be remembered from it)
    QueryPath,
    /// removal-only batch on two other positions among the first 256 (indices travel as bytes)
    BatchRemove(Where, Where),
    /// a few thousand other members registered in one request (right after / around the prover)
    BigRegistration(u16),
    /// requests the tree must refuse and that must leave it as it was: 0 = batch initialisation with
    /// more leaves than the tree holds, 1 = a range write running past the end, 2 = a write at
    /// position 2^20
    Refused(u8),
    /// somewhere else in the process a second instance is created from a damaged graph file and
    /// asked for a proof; that call fails (error or panic, contained) and is nobody else's business
    DamagedGraphElsewhere(u8),
}

#[derive(Clone, Copy, Debug, Serialize, Deserialize, PartialEq, Eq)]
pub enum Place {
    SetLeaf,
    SetLeavesFrom,
    NextLeafIfPossible,
}

#[derive(Clone, Debug, Serialize, Deserialize)]
pub struct Case {
    pub req: Req,
    pub pre: Vec<SideOp>,
    pub post: Vec<SideOp>,
    pub entry: Entry,
    pub place: Place,
    /// a second, related request proved on the same instance right after the first one
    #[serde(default)]
    pub second: Option<Second>,
    /// bits 0-1: how an externally computed witness vector writes its entries (0 = canonical [0,p),
    /// 1 = balanced: v > (p-1)/2 as v - p, 2 = every non-zero entry as v - p, 3 = odd positions as
    /// v - p); bit 2: the membership tree is a persistent one that is flushed, dropped and re-created
    /// from its location between the registration history and the proof; bit 3: the instance is built
    /// by new_with_params from another valid key file and proves / verifies with that key
    #[serde(default)]
    pub variant: u8,
}

#[derive(Clone, Debug, Serialize, Deserialize)]
pub enum Second {
    /// same member, epoch and message id, another signal
    OtherSignal(crate::gens::Bytes),
    /// same member and epoch, another message id below the limit
    OtherMessageId(u16),
    /// same member, another external nullifier
    OtherEpoch(Fx),
    Same,
}

fn side_value(i: u8) -> Fr {
    crate::props::trees::pool_value(i)
}

fn resolve(w: Where, index: usize) -> usize {
    let pos = match w {
        Where::Sibling => index ^ 1,
        Where::OtherHalf => (index + CAP / 2) % CAP,
        Where::Neighbour => (index + 2) % CAP,
        Where::Uniform(r) => (r as usize) % CAP,
        Where::First => 0,
        Where::Last => CAP - 1,
    };
    if pos == index { (index + 3) % CAP } else { pos }
}

fn apply_side(r: &mut RLN, m: &mut TreeModel, op: &SideOp, index: usize) -> Result<(), String> {
    match op {
        SideOp::Set(w, v) => {
            let i = resolve(*w, index);
            r.set_leaf(i, Cursor::new(cr::enc_fr(&fr_to_big(&side_value(*v))))).map_err(|e| e.to_string())?;
            m.set(i, side_value(*v));
        }
        SideOp::Delete(w) => {
            let i = resolve(*w, index);
            if i < m.mark {
                r.delete_leaf(i).map_err(|e| e.to_string())?;
                m.delete(i);
            }
        }
        SideOp::QueryPath => {
            let mut out = vec![];
            r.get_proof(index, &mut out).map_err(|e| e.to_string())?;
        }
        SideOp::BatchRemove(a, b) => {
            let fix = |w: Where| {
                let i = resolve(w, index) % 256;
                if i == index { (i + 1) % 256 } else { i }
            };
            let (i, j) = (fix(*a), fix(*b));
            if i == index || j == index {
                return Ok(());
            }
            // two other members are registered (if those positions are still empty), the prover looks
            // at its path, then both are removed in one batch
            for (k, pos) in [i, j].into_iter().enumerate() {
                if m.get(pos) == Some(Fr::from(0u64)) {
                    let v = side_value(4 + k as u8);
                    r.set_leaf(pos, Cursor::new(cr::enc_fr(&fr_to_big(&v)))).map_err(|e| e.to_string())?;
                    m.set(pos, v);
                }
            }
            let mut out = vec![];
            r.get_proof(index, &mut out).map_err(|e| e.to_string())?;
            r.atomic_operation(0, Cursor::new(cr::enc_vec_fr(&[])), Cursor::new(cr::enc_vec_u8(&[i as u8, j as u8]))).map_err(|e| e.to_string())?;
            m.override_range(0, &[], &[i, j]);
        }
        SideOp::BigRegistration(raw) => {
            let n = [2100usize, 3000, 4097, 5000][*raw as usize % 4];
            // the block starts at 0 when the prover sits behind it, else right after the prover
            let start = if index >= n { 0 } else { index + 1 };
            if start + n > CAP {
                return Ok(());
            }
            let vals: Vec<Fr> = (0..n).map(|k| side_value(1 + ((k as u8).wrapping_mul((*raw % 5) as u8 + 1)) % 5)).collect();
            let enc = cr::enc_vec_fr(&vals.iter().map(fr_to_big).collect::<Vec<_>>());
            r.set_leaves_from(start, Cursor::new(enc)).map_err(|e| e.to_string())?;
            m.set_range(start, &vals);
        }
        SideOp::Refused(k) => {
            let one = cr::enc_fr(&fr_to_big(&side_value(3)));
            let res = match k % 3 {
                0 => {
                    // 2^20 + 1 leaves (all equal; the request is refused for its size)
                    let mut enc = cr::enc_u64((CAP + 1) as u64);
                    enc.reserve((CAP + 1) * 32);
                    for _ in 0..=CAP {
                        enc.extend_from_slice(&one);
                    }
                    guarded(|| r.init_tree_with_leaves(Cursor::new(enc)).map_err(|e| e.to_string()))
                }
                1 => {
                    let vals: Vec<BigUint> = (0..5).map(|_| fr_to_big(&side_value(2))).collect();
                    guarded(|| r.set_leaves_from(CAP - 3, Cursor::new(cr::enc_vec_fr(&vals))).map_err(|e| e.to_string()))
                }
                _ => guarded(|| r.set_leaf(CAP, Cursor::new(one.clone())).map_err(|e| e.to_string())),
            };
            match res {
                Ok(Err(_)) => {}
                Ok(Ok(())) => return Err(format!("a request the tree must refuse (shape {}) was accepted", k % 3)),
                Err(pn) => return Err(format!("a request the tree must refuse (shape {}) panicked: {}", k % 3, pn.0)),
            }
        }
        SideOp::DamagedGraphElsewhere(kind) => {
            let g = damaged_graph(*kind);
            let _ = guarded(|| {
                let mut other = RLN::new_with_params(DEPTH, rln::circuit::ZKEY_BYTES.to_vec(), g, Cursor::new("{}".to_string())).map_err(|e| e.to_string())?;
                let w = rln::protocol::random_rln_witness(DEPTH);
                let enc = rln::protocol::serialize_witness(&w).map_err(|e| e.to_string())?;
                let mut out = vec![];
                other.prove(Cursor::new(enc), &mut out).map_err(|e| e.to_string())
            });
        }
        SideOp::Range(w, vs) => {
            // range writes stay in the first 4096 positions: the persistent backend's batch insert
            // visits every node left of the range's end inside each right subtree (seconds at 2^20)
            let mut start = resolve(*w, index) % 4096;
            if vs.is_empty() {
                return Ok(());
            }
            // keep the range away from the prover's position and inside the tree
            if start + vs.len() > CAP {
                start = CAP - vs.len();
            }
            if (start..start + vs.len()).contains(&index) {
                if index + 1 + vs.len() <= CAP { start = index + 1 } else { start = index - vs.len() }
            }
            let vals: Vec<Fr> = vs.iter().map(|v| side_value(*v)).collect();
            let enc = cr::enc_vec_fr(&vals.iter().map(fr_to_big).collect::<Vec<_>>());
            r.set_leaves_from(start, Cursor::new(enc)).map_err(|e| e.to_string())?;
            m.set_range(start, &vals);
        }
    }
    Ok(())
}

fn where_strategy() -> BoxedStrategy<Where> {
    prop_oneof![
        3 => Just(Where::Sibling),
        2 => Just(Where::OtherHalf),
        1 => Just(Where::Neighbour),
        3 => any::<u32>().prop_map(Where::Uniform),
        1 => Just(Where::First),
        1 => Just(Where::Last),
    ]
    .boxed()
}

pub fn side_op() -> BoxedStrategy<SideOp> {
    prop_oneof![
        4 => (where_strategy(), 0u8..6).prop_map(|(w, v)| SideOp::Set(w, v)),
        2 => where_strategy().prop_map(SideOp::Delete),
        2 => (where_strategy(), proptest::collection::vec(0u8..6, 1..5)).prop_map(|(w, v)| SideOp::Range(w, v)),
        2 => Just(SideOp::QueryPath),
        1 => any::<u16>().prop_map(SideOp::BigRegistration),
        2 => (where_strategy(), where_strategy()).prop_map(|(a, b)| SideOp::BatchRemove(a, b)),
        1 => (0u8..3).prop_map(SideOp::Refused),
        1 => (0u8..4).prop_map(SideOp::DamagedGraphElsewhere),
    ]
    .boxed()
}

pub fn case_strategy(entries: Vec<Entry>) -> BoxedStrategy<Case> {
    let n = entries.len();
    (
        req_strategy(12_000),
        proptest::collection::vec(side_op(), 0..4),
        proptest::collection::vec(side_op(), 0..4),
        (0..n).prop_map(move |i| entries[i]),
        prop_oneof![3 => Just(Place::SetLeaf), 1 => Just(Place::SetLeavesFrom), 1 => Just(Place::NextLeafIfPossible)],
        prop_oneof![
            5 => Just(None),
            1 => crate::gens::bytes(300).prop_map(|b| Some(Second::OtherSignal(b))),
            1 => any::<u16>().prop_map(|m| Some(Second::OtherMessageId(m))),
            1 => crate::gens::fx().prop_map(|e| Some(Second::OtherEpoch(e))),
            1 => Just(Some(Second::Same)),
        ],
        // external vector representation (bits 0-1) and, for one case in five, a persistent tree that
        // is re-created from its location before proving (bit 2)
        (0u8..4, prop_oneof![4 => Just(0u8), 1 => Just(4u8)], prop_oneof![5 => Just(0u8), 1 => Just(8u8)]).prop_map(|(r, p, k)| r | p | k),
    )
        .prop_map(|(req, pre, post, entry, place, second, variant)| Case { req, pre, post, entry, place, second, variant })
        .boxed()
}

/// builds the tree (implementation + model) for a case; returns them
/// the tree configuration itself (what new_with_params expects); RLN::new expects it wrapped in a
/// {"tree_config": ..} document
fn persistent_tree_cfg(dir: &std::path::Path) -> String {
    format!("{{\"path\": {}, \"temporary\": false}}", serde_json::Value::String(dir.to_string_lossy().to_string()))
}

pub fn build_world(c: &Case) -> Result<(RLN, TreeModel), String> {
    let reopen = c.variant & 4 != 0;
    let dir = std::env::temp_dir().join(format!("c01-{:016x}-{:?}", case_hash(c), std::thread::current().id()));
    let res = build_world_at(c, reopen, &dir);
    if reopen {
        // the re-created instance keeps the location open; it is removed once the files are unlinked
        let _ = std::fs::remove_dir_all(&dir);
    }
    res
}

fn build_world_at(c: &Case, reopen: bool, dir: &std::path::Path) -> Result<(RLN, TreeModel), String> {
    // bit 3: the instance is built by new_with_params from another valid key file (delta halved, L and
    // H queries doubled): it proves and verifies with its own key
    let own_key = c.variant & 8 != 0 && c.entry != Entry::ExternalWitness;
    let cfg = if reopen { persistent_tree_cfg(dir) } else { String::new() };
    let make = |cfg: &str| -> Result<RLN, String> {
        if own_key {
            RLN::new_with_params(DEPTH, rescaled_zkey()?.clone(), graph_bytes().to_vec(), Cursor::new(cfg.to_string())).map_err(|e| e.to_string())
        } else if cfg.is_empty() {
            RLN::new(DEPTH, Cursor::new("{}".to_string())).map_err(|e| e.to_string())
        } else {
            RLN::new(DEPTH, Cursor::new(format!("{{\"tree_config\": {cfg}}}"))).map_err(|e| e.to_string())
        }
    };
    if reopen {
        let _ = std::fs::remove_dir_all(dir);
    }
    let mut r = make(&cfg).map_err(|e| format!("cannot create the instance: {e}"))?;
    let mut m = TreeModel::new(DEPTH, Fr::from(0u64));
    for op in &c.pre {
        apply_side(&mut r, &mut m, op, c.req.index)?;
    }
    let rc = c.req.rate_commitment();
    let rcf = big_to_fr(&rc);
    match c.place {
        Place::SetLeavesFrom => {
            r.set_leaves_from(c.req.index, Cursor::new(cr::enc_vec_fr(&[rc.clone()]))).map_err(|e| e.to_string())?;
        }
        Place::NextLeafIfPossible if m.mark == c.req.index => {
            r.set_next_leaf(Cursor::new(cr::enc_fr(&rc))).map_err(|e| e.to_string())?;
        }
        _ => set_leaf_big(&mut r, c.req.index, &rc)?,
    }
    m.set(c.req.index, rcf);
    // a member typically fetches its path once after registration; that read must not influence
    // anything that follows
    apply_side(&mut r, &mut m, &SideOp::QueryPath, c.req.index)?;
    for op in &c.post {
        apply_side(&mut r, &mut m, op, c.req.index)?;
    }
    if reopen {
        r.flush().map_err(|e| format!("flush failed: {e}"))?;
        drop(r);
        r = make(&cfg).map_err(|e| format!("re-creating the persistent instance from its location failed: {e}"))?;
    }
    Ok((r, m))
}

fn proof_bytes(p: &ark_groth16::Proof<ark_bn254::Bn254>) -> Vec<u8> {
    let mut v = vec![];
    p.serialize_compressed(&mut v).expect("serialize");
    v
}

/// run the chosen proving entry point; Ok(message 288 bytes) or Err(description)
pub fn prove_via(r: &mut RLN, m: &TreeModel, c: &Case) -> Result<Vec<u8>, String> {
    let req_bytes = c.req.encode();
    let want = expected_values(&c.req, m);
    match c.entry {
        Entry::FromTree => {
            let mut sink = crate::gens::Sink::new();
            match guarded(|| r.generate_rln_proof(crate::gens::rd(&req_bytes), &mut sink).map_err(|e| e.to_string())) {
                Ok(Ok(())) => Ok(sink.data),
                Ok(Err(e)) => Err(format!("generate_rln_proof returned an error for a valid request: {e}")),
                Err(pn) => Err(format!("generate_rln_proof panicked: {}", pn.0)),
            }
        }
        Entry::FromWitness => {
            let wb = match guarded(|| r.get_serialized_rln_witness(Cursor::new(req_bytes)).map_err(|e| e.to_string())) {
                Ok(Ok(b)) => b,
                other => return Err(format!("get_serialized_rln_witness failed for a valid request: {other:?}")),
            };
            let mut sink = crate::gens::Sink::new();
            match guarded(|| r.generate_rln_proof_with_witness(crate::gens::rd(&wb), &mut sink).map_err(|e| e.to_string())) {
                Ok(Ok(())) => Ok(sink.data),
                Ok(Err(e)) => Err(format!("generate_rln_proof_with_witness returned an error for a valid witness: {e}")),
                Err(pn) => Err(format!("generate_rln_proof_with_witness panicked: {}", pn.0)),
            }
        }
        Entry::RawProve => {
            // witness assembled independently from the model tree, proof values from the formulas
            let (sibs, bits) = m.proof(c.req.index).unwrap();
            let w = Wit { s: c.req.s, limit: c.req.limit, mid: c.req.mid, path: sibs.iter().map(|f| Fx(*f)).collect(), bits, x: fxb(&want.x), e: c.req.e };
            let mut sink = crate::gens::Sink::new();
            let enc = w.encode();
            let res = guarded(|| r.prove(crate::gens::rd(&enc), &mut sink).map_err(|e| e.to_string()));
            let mut proof = sink.data;
            match res {
                Ok(Ok(())) => {}
                Ok(Err(e)) => return Err(format!("prove returned an error for a valid witness: {e}")),
                Err(pn) => return Err(format!("prove panicked: {}", pn.0)),
            }
            if proof.len() != 128 {
                return Err(format!("prove wrote {} bytes instead of a 128-byte compressed proof", proof.len()));
            }
            proof.extend(cr::enc_values(&want));
            Ok(proof)
        }
        Entry::ExternalWitness => {
            let (sibs, bits) = m.proof(c.req.index).unwrap();
            let w = Wit { s: c.req.s, limit: c.req.limit, mid: c.req.mid, path: sibs.iter().map(|f| Fx(*f)).collect(), bits, x: fxb(&want.x), e: c.req.e };
            let rw = refwit::global(crate::props::c05::WORKERS)?;
            let full = match rw.eval(0, &w, true)? {
                RefOut::Full(v) => v,
                RefOut::Reject(e) => return Err(format!("the reference witness generator rejects a valid assignment: {e}")),
                _ => unreachable!(),
            };
            // how the external tool writes field elements: canonical, balanced or negative representatives
            let pm: BigUint = crate::models::field::p().clone();
            let half = (&pm - 1u32) / 2u32;
            let repr = c.variant & 3;
            let vec: Vec<BigInt> = full
                .into_iter()
                .enumerate()
                .map(|(i, v)| {
                    let neg = match repr {
                        0 => false,
                        1 => v > half,
                        2 => v != BigUint::from(0u32),
                        _ => i % 2 == 1 && v != BigUint::from(0u32),
                    };
                    if neg {
                        BigInt::from(v) - BigInt::from(pm.clone())
                    } else {
                        BigInt::from(v)
                    }
                })
                .collect();
            let key = rln::circuit::zkey_from_folder();
            match guarded(|| rln::protocol::generate_proof_with_witness(vec, key).map_err(|e| e.to_string())) {
                Ok(Ok(p)) => {
                    let mut msg = proof_bytes(&p);
                    msg.extend(cr::enc_values(&want));
                    Ok(msg)
                }
                Ok(Err(e)) => Err(format!("generate_proof_with_witness returned an error for an externally computed valid witness: {e}")),
                Err(pn) => Err(format!("generate_proof_with_witness panicked: {}", pn.0)),
            }
        }
    }
}

/// all acceptance checks for a message produced for `c` on tree (r, m)
pub fn check_accepted(r: &RLN, m: &TreeModel, c: &Case, msg: &[u8], o: &mut Outcome) {
    if msg.len() != 288 {
        vfail!(o, "message has {} bytes, expected 288", msg.len());
        return;
    }
    let want = expected_values(&c.req, m);
    let got = match values_from_bytes(&msg[128..]) {
        Ok(v) => v,
        Err(e) => {
            vfail!(o, "published values: {e}");
            return;
        }
    };
    if got != want {
        vfail!(o, "published values differ from the model: root {} vs {}, x {} vs {}, y {} vs {}, nullifier {} vs {}, e {} vs {}", got.root, want.root, got.x, want.x, got.y, want.y, got.nullifier, want.nullifier, got.e, want.e);
        return;
    }
    let signal = c.req.signal.expand();
    let vi = verify_input(msg, &signal);
    let root = want.root.clone();
    let other1 = cr::enc_fr(&((&root + 1u32) % p()));
    let other2 = cr::enc_fr(&BigUint::from(12345u32));
    let mut three = other1.clone();
    three.extend(cr::enc_fr(&root));
    three.extend(other2.clone());
    let checks: Vec<(&str, V)> = vec![
        ("verify (288-byte prefix)", call_verify(r, msg)),
        ("verify_rln_proof against the same tree", call_verify_rln(r, &vi)),
        ("verify_with_roots [root]", call_verify_roots(r, &vi, &cr::enc_fr(&root))),
        ("verify_with_roots [r1, root, r2]", call_verify_roots(r, &vi, &three)),
        ("verify_with_roots with the empty set", call_verify_roots(r, &vi, &[])),
    ];
    o.evals += checks.len() as u64;
    for (what, v) in checks {
        if !v.is_true() {
            vfail!(o, "{what}: a message generated for a valid membership was not accepted: {v:?} (entry {:?}, index {}, limit {:?}, mid {:?}, signal {} bytes)", c.entry, c.req.index, c.req.limit, c.req.mid, signal.len());
            return;
        }
    }
}

pub fn run_case(c: &Case, o: &mut Outcome) {
    let t0 = std::time::Instant::now();
    let timing = std::env::var("VERIF_TIMING").is_ok();
    let (mut r, m) = match guarded(|| build_world(c)) {
        Ok(Ok(x)) => x,
        Ok(Err(e)) => {
            vfail!(o, "tree history failed: {e}");
            return;
        }
        Err(pn) => {
            vfail!(o, "tree history panicked: {}", pn.0);
            return;
        }
    };
    if get_root_big(&r) != fr_to_big(&m.root()) {
        vfail!(o, "tree root differs from the ideal model after the history (see C06)");
        return;
    }
    let t1 = t0.elapsed();
    let res = prove_via(&mut r, &m, c);
    let t2 = t0.elapsed();
    match res {
        Ok(msg) => check_accepted(&r, &m, c, &msg, o),
        Err(e) => vfail!(o, "{e} [entry {:?}, index {}, limit {:?}, mid {:?}]", c.entry, c.req.index, c.req.limit, c.req.mid),
    }
    // a second, related request on the same instance: nothing may be carried over from the first
    if let (false, Some(sec)) = (o.failed(), &c.second) {
        let mut c2 = c.clone();
        c2.second = None;
        match sec {
            Second::OtherSignal(b) => c2.req.signal = b.clone(),
            Second::OtherMessageId(raw) => {
                use num_traits::ToPrimitive;
                let limit = c.req.limit.big().to_u64().unwrap_or(1).max(1);
                let mut mid = (*raw as u64) % limit;
                if Fx::from_u64(mid) == c.req.mid {
                    mid = (mid + 1) % limit;
                }
                c2.req.mid = Fx::from_u64(mid);
            }
            Second::OtherEpoch(e) => c2.req.e = *e,
            Second::Same => {}
        }
        o.label("second-related-request-on-the-same-instance");
        match prove_via(&mut r, &m, &c2) {
            Ok(msg) => {
                check_accepted(&r, &m, &c2, &msg, o);
                if let Some(f) = o.fail.take() {
                    vfail!(o, "second request on the same instance ({sec:?}): {f}");
                }
            }
            Err(e) => vfail!(o, "second request on the same instance ({sec:?}): {e}"),
        }
    }
    let t3 = t0.elapsed();
    drop(r);
    if timing {
        eprintln!("timing: world {:?} prove {:?} verify {:?} drop {:?} entry {:?}", t1, t2 - t1, t3 - t2, t0.elapsed() - t3, c.entry);
    }
}

impl Property for C01 {
    type Case = Case;
    fn id(&self) -> &'static str {
        "C01"
    }
    fn rule(&self) -> String {
        "(secret, leaf index, limit, message id, external nullifier, signal, tree history, entry point): field values boundary-weighted, index from {0, 1, 2^19-1, 2^19, 2^20-2, 2^20-1, right half, uniform}, limit from {1, 2, 100, 65535, 65536, uniform}, message id from {0, limit-1, uniform}, signals of length 0..12000 incl. Keccak block edges; 0..3 tree operations (set/delete/range write/removal-only batch / registration of 2100..5000 other members in one request on the sibling, the other half, neighbours, first/last, uniform positions, and reads of the prover's own membership path) before and after the rate commitment is placed (set_leaf, set_leaves_from or set_next_leaf); four entry points (tree state, caller-supplied witness, raw prove with independently assembled witness and values, externally computed witness vector from the reference generator); 4 in 9 cases prove a second, related request on the same instance right afterwards (another signal / message id / external nullifier / the same request again). An externally computed vector writes its entries as canonical, balanced (v > (p-1)/2 as v - p), negative (every non-zero entry as v - p) or alternating representatives; one case in five registers on a persistent tree that is flushed, dropped and re-created from its location before the proof is requested. One case in six runs on an instance built by new_with_params from another valid key file (delta halved, L and H queries doubled), proving and verifying with its own key; histories contain requests the tree must refuse (over-capacity initialisation with 2^20+1 leaves, a range write past the end, a write at position 2^20) and a proof attempt on a second instance built from a damaged graph file (contained). A quarter of the cases have every verification call made by a second long-lived thread of the caller (taking turns with the thread that proves and changes the tree). \
         non-trivial = index >= 2^19, mid in {0, limit-1}, limit in {1, 2^16}, a boundary field value, or signal length 0 or >= 136; distinct by case content".into()
    }
    fn assumptions(&self) -> Vec<String> {
        vec!["reference Poseidon/Keccak (self-tested), the ideal tree model, the reference witness generator (entry point 4)".into()]
    }
    fn plan(&self, tier: Tier) -> Plan {
        Plan { shards: 1, cases_per_shard: tier.pick(100, 3_000), max_shrink_iters: 24, watchdog_s: tier.pick(1500, 10_800) }
    }
    fn selftest(&self, _ctx: &Ctx) -> Result<(), String> {
        keccak_ref::selftest()?;
        poseidon_ref::selftest()?;
        refwit::global(crate::props::c05::WORKERS).map(|_| ())
    }
    fn strategy(&self, _tier: Tier, _shard: usize) -> BoxedStrategy<Case> {
        case_strategy(vec![Entry::FromTree, Entry::FromWitness, Entry::RawProve, Entry::ExternalWitness])
    }
    fn check(&self, _ctx: &Ctx, c: &Case) -> Outcome {
        let mut o = Outcome::new();
        // requests are read and messages written through readers / writers that move 1, 7 or 33 bytes
        // per call, or everything at once (chosen from the case content)
        crate::gens::set_io_style((case_hash(c) % 4) as u8);
        o.label(format!("io-style/{}", crate::gens::io_style()));
        // a quarter of the cases: verification is done by a second long-lived thread of the caller
        let second = (case_hash(c) / 4) % 4 == 1;
        crate::pipeline::verify_on_second_thread(second);
        if second {
            o.label("verified-by-a-second-thread");
        }
        o.label(format!("entry/{:?}", c.entry));
        o.label(format!("place/{:?}", c.place));
        if c.variant & 4 != 0 {
            o.label("persistent-tree-re-created-before-proving");
        }
        if c.variant & 8 != 0 && c.entry != Entry::ExternalWitness {
            o.label("instance-with-its-own-key");
        }
        if c.entry == Entry::ExternalWitness {
            o.label(format!("external-vector/{}", ["canonical", "balanced", "negative", "alternating"][(c.variant & 3) as usize]));
        }
        if !c.pre.is_empty() || !c.post.is_empty() {
            o.label("with-tree-history");
        }
        o.nontrivial = req_nontrivial(&c.req, &mut o);
        run_case(c, &mut o);
        o
    }
    fn sample_view(&self, c: &Case) -> serde_json::Value {
        serde_json::json!({"s": c.req.s, "index": c.req.index, "limit": c.req.limit, "mid": c.req.mid, "e": c.req.e, "signal_len": c.req.signal.len(), "pre": c.pre.len(), "post": c.post.len(), "entry": format!("{:?}", c.entry), "place": format!("{:?}", c.place)})
    }
}
