//! Shared stateful interpreter for the tree properties (C06, C07, C08, C15, part of C16).
//! Histories are `vec(op)`; positions are symbolic selectors resolved against the model state so
//! that shrinking keeps them meaningful. One ideal model per backend; an operation that falls in a
//! listed known-finding class for one backend is skipped for that backend (and its model) only.

use crate::engine::*;
use crate::models::codec_ref;
use crate::models::field::{fr_to_big, fr_to_le32, Fx};
use crate::models::tree_model::{TreeModel, Verdict};
use ark_bn254::Fr;
use proptest::prelude::*;
use rln::hashers::PoseidonHash;
use rln::pm_tree_adapter::{PmTree, PmtreeConfig};
use rln::public::RLN;
use serde::{Deserialize, Serialize};
use std::io::Cursor;
use std::str::FromStr;
use zerokit_utils::{FullMerkleTree, OptimalMerkleTree, ZerokitMerkleProof, ZerokitMerkleTree};

// ---------------------------------------------------------------------------------------------
// symbolic operations
// ---------------------------------------------------------------------------------------------

#[derive(Clone, Copy, Debug, Serialize, Deserialize, PartialEq, Eq)]
pub enum PosKind {
    Zero,
    Uniform,
    Mark,
    MarkMinus1,
    MarkPlus1,
    CapMinus1,
    Cap,
    CapPlus1,
    Max,
    /// cap - raw (small distance from the end)
    NearEnd,
}

#[derive(Clone, Copy, Debug, Serialize, Deserialize, PartialEq, Eq)]
pub struct Pos {
    pub kind: PosKind,
    pub raw: u16,
}

impl Pos {
    pub fn resolve(&self, cap: usize, mark: usize) -> usize {
        match self.kind {
            PosKind::Zero => 0,
            PosKind::Uniform => pick_index(self.raw, cap),
            PosKind::Mark => mark,
            PosKind::MarkMinus1 => mark.saturating_sub(1),
            PosKind::MarkPlus1 => mark + 1,
            PosKind::CapMinus1 => cap - 1,
            PosKind::Cap => cap,
            PosKind::CapPlus1 => cap + 1,
            PosKind::Max => usize::MAX,
            PosKind::NearEnd => cap.saturating_sub((self.raw % 8) as usize),
        }
    }
}

pub fn pos_in_range() -> BoxedStrategy<Pos> {
    prop_oneof![
        2 => Just(Pos { kind: PosKind::Zero, raw: 0 }),
        8 => any::<u16>().prop_map(|raw| Pos { kind: PosKind::Uniform, raw }),
        3 => Just(Pos { kind: PosKind::Mark, raw: 0 }),
        2 => Just(Pos { kind: PosKind::MarkMinus1, raw: 0 }),
        1 => Just(Pos { kind: PosKind::MarkPlus1, raw: 0 }),
        2 => Just(Pos { kind: PosKind::CapMinus1, raw: 0 }),
        2 => any::<u16>().prop_map(|raw| Pos { kind: PosKind::NearEnd, raw }),
    ]
    .boxed()
}

pub fn pos_any() -> BoxedStrategy<Pos> {
    prop_oneof![
        12 => pos_in_range(),
        1 => Just(Pos { kind: PosKind::Cap, raw: 0 }),
        1 => Just(Pos { kind: PosKind::CapPlus1, raw: 0 }),
        1 => Just(Pos { kind: PosKind::Max, raw: 0 }),
    ]
    .boxed()
}

/// leaf values come from a small pool (index 0 is the default leaf)
pub const POOL: usize = 6;
pub fn pool_value(i: u8) -> Fr {
    match i % POOL as u8 {
        0 => Fr::from(0u64),
        1 => Fr::from(1u64),
        2 => Fr::from(2u64),
        3 => -Fr::from(1u64),
        4 => Fr::from(0xdead_beef_u64) * Fr::from(0x1234_5678_9abc_u64),
        _ => Fr::from(u64::MAX) * Fr::from(u64::MAX) * Fr::from(u64::MAX),
    }
}

#[derive(Clone, Debug, Serialize, Deserialize, PartialEq, Eq)]
pub enum Op {
    Set(Pos, u8),
    Delete(Pos),
    Append(u8),
    SetRange(Pos, Vec<u8>),
    Batch(Pos, Vec<u8>, Vec<Pos>),
    /// batch initialisation: fresh tree followed by a write at 0 (RLN::init_tree_with_leaves)
    Init(Vec<u8>),
    ComputeRoot,
    Reset,
    Reopen,
    Flush,
    SetMetadata(Vec<u8>),
}

/// operation with positions resolved against a model state
#[derive(Clone, Debug)]
pub enum ROp {
    Set(usize, Fr),
    Delete(usize),
    Append(Fr),
    SetRange(usize, Vec<Fr>),
    Batch(usize, Vec<Fr>, Vec<usize>),
    Init(Vec<Fr>),
    ComputeRoot,
    Reset,
    Reopen,
    Flush,
    SetMetadata(Vec<u8>),
}

impl Op {
    pub fn resolve(&self, m: &TreeModel) -> ROp {
        let (cap, mark) = (m.cap(), m.mark);
        let vals = |v: &Vec<u8>| v.iter().map(|i| pool_value(*i)).collect::<Vec<_>>();
        match self {
            Op::Set(p, v) => ROp::Set(p.resolve(cap, mark), pool_value(*v)),
            Op::Delete(p) => ROp::Delete(p.resolve(cap, mark)),
            Op::Append(v) => ROp::Append(pool_value(*v)),
            Op::SetRange(p, v) => ROp::SetRange(p.resolve(cap, mark), vals(v)),
            Op::Batch(p, v, r) => ROp::Batch(
                p.resolve(cap, mark),
                vals(v),
                r.iter().map(|q| q.resolve(cap, mark)).collect(),
            ),
            Op::Init(v) => ROp::Init(vals(v)),
            Op::ComputeRoot => ROp::ComputeRoot,
            Op::Reset => ROp::Reset,
            Op::Reopen => ROp::Reopen,
            Op::Flush => ROp::Flush,
            Op::SetMetadata(b) => ROp::SetMetadata(b.clone()),
        }
    }
}

impl ROp {
    pub fn kind(&self) -> &'static str {
        match self {
            ROp::Set(..) => "set",
            ROp::Delete(..) => "delete",
            ROp::Append(..) => "append",
            ROp::SetRange(..) => "set_range",
            ROp::Batch(..) => "batch",
            ROp::Init(..) => "init",
            ROp::ComputeRoot => "compute_root",
            ROp::Reset => "reset",
            ROp::Reopen => "reopen",
            ROp::Flush => "flush",
            ROp::SetMetadata(..) => "set_metadata",
        }
    }
    pub fn describe(&self) -> String {
        let f = |v: &Vec<Fr>| {
            let mut out: Vec<String> = v.iter().take(6).map(|x| fr_to_big(x).to_string()).collect();
            if v.len() > 6 {
                out.push(format!("… {} leaves in total", v.len()));
            }
            out
        };
        match self {
            ROp::Set(i, v) => format!("set({i}, {})", fr_to_big(v)),
            ROp::Delete(i) => format!("delete({i})"),
            ROp::Append(v) => format!("update_next({})", fr_to_big(v)),
            ROp::SetRange(s, v) => format!("set_range({s}, {:?})", f(v)),
            ROp::Batch(s, v, r) => format!("override_range({s}, {:?}, remove {:?})", f(v), r),
            ROp::Init(v) => format!("init_tree_with_leaves({:?})", f(v)),
            ROp::SetMetadata(b) => format!("set_metadata({} bytes)", b.len()),
            o => o.kind().to_string(),
        }
    }
    /// apply to the model; returns the model's verdict
    pub fn apply_model(&self, m: &mut TreeModel) -> Verdict {
        match self {
            ROp::Set(i, v) => m.set(*i, *v),
            ROp::Delete(i) => m.delete(*i),
            ROp::Append(v) => m.update_next(*v),
            ROp::SetRange(s, v) => m.set_range(*s, v),
            ROp::Batch(s, v, r) => m.override_range(*s, v, r),
            ROp::Init(v) => {
                // fresh tree + write at 0; rejected (capacity) leaves... a fresh tree: the doc says
                // "resets the tree state to default and sets multiple leaves starting from index 0"
                if v.len() > m.cap() {
                    Verdict::Rejected
                } else {
                    m.reset();
                    m.set_range(0, v);
                    Verdict::Applied
                }
            }
            ROp::Reset => {
                m.reset();
                Verdict::Applied
            }
            ROp::SetMetadata(b) => {
                m.metadata = b.clone();
                Verdict::Applied
            }
            ROp::ComputeRoot | ROp::Reopen | ROp::Flush => Verdict::Applied,
        }
    }
}

// ---------------------------------------------------------------------------------------------
// backends
// ---------------------------------------------------------------------------------------------

#[derive(Clone, Copy, Debug, PartialEq, Eq, Serialize, Deserialize, Hash, PartialOrd, Ord)]
pub enum BackendKind {
    Full,
    Optimal,
    Pm,
    RlnApi,
}

impl BackendKind {
    pub fn name(&self) -> &'static str {
        match self {
            BackendKind::Full => "full",
            BackendKind::Optimal => "optimal",
            BackendKind::Pm => "pmtree",
            BackendKind::RlnApi => "rln-api",
        }
    }
}

pub type OpResult = Result<Result<(), String>, Panicked>;

#[derive(Clone, Debug)]
pub struct ProofView {
    pub length: usize,
    pub leaf_index: usize,
    pub elements: Vec<Fr>,
    pub bits: Vec<u8>,
}

pub trait Backend {
    fn kind(&self) -> BackendKind;
    /// None = this backend has no such operation (skipped, model not advanced)
    fn apply(&mut self, op: &ROp) -> Option<OpResult>;
    fn root(&self) -> Fr;
    fn leaves_set(&mut self) -> usize;
    fn get(&self, i: usize) -> Result<Fr, String>;
    fn subtree_root(&self, level: usize, i: usize) -> Result<Fr, String>;
    fn empty_list(&self) -> Vec<usize>;
    fn metadata(&self) -> Result<Vec<u8>, String>;
    /// membership proof for position i, with the root recomputed from each of `leaves`
    /// and the tree's own verdict for each of them
    fn proof_obs(&self, i: usize, leaves: &[Fr]) -> Result<Result<ProofObs, String>, Panicked>;
    /// the tree's own check on a proof assembled from parts; None = not constructible here
    fn verify_parts(&self, leaf: &Fr, parts: &[(Fr, u8)]) -> Option<Result<Result<bool, String>, Panicked>>;
}

#[derive(Clone, Debug)]
pub struct ProofObs {
    pub view: ProofView,
    pub roots: Vec<Fr>,
    pub verdicts: Vec<Option<Result<bool, String>>>,
}

pub struct TraitBackend<T: ZerokitMerkleTree<Hasher = PoseidonHash>> {
    pub kind: BackendKind,
    pub tree: Option<T>,
    pub depth: usize,
    pub mk: Box<dyn Fn(usize) -> T>,
    pub from_parts: fn(&[(Fr, u8)]) -> Option<T::Proof>,
}

fn estr<E: std::fmt::Display>(e: E) -> String {
    e.to_string()
}


fn generic_proof_obs<T>(t: &T, i: usize, leaves: &[Fr]) -> Result<Result<ProofObs, String>, Panicked>
where
    T: ZerokitMerkleTree<Hasher = PoseidonHash>,
    T::Proof: ZerokitMerkleProof<Index = u8, Hasher = PoseidonHash>,
{
    guarded(|| {
        let p = t.proof(i).map_err(estr)?;
        let view = proof_view(&p);
        let roots = leaves.iter().map(|l| p.compute_root_from(l)).collect();
        let verdicts = leaves.iter().map(|l| Some(t.verify(l, &p).map_err(estr))).collect();
        Ok(ProofObs { view, roots, verdicts })
    })
}

impl<T: ZerokitMerkleTree<Hasher = PoseidonHash>> TraitBackend<T> {
    pub fn t(&self) -> &T {
        self.tree.as_ref().unwrap()
    }
    pub fn tm(&mut self) -> &mut T {
        self.tree.as_mut().unwrap()
    }
}

impl<T> Backend for TraitBackend<T>
where
    T: ZerokitMerkleTree<Hasher = PoseidonHash>,
    T::Proof: ZerokitMerkleProof<Index = u8, Hasher = PoseidonHash>,
{
    fn proof_obs(&self, i: usize, leaves: &[Fr]) -> Result<Result<ProofObs, String>, Panicked> {
        generic_proof_obs(self.t(), i, leaves)
    }
    fn verify_parts(&self, leaf: &Fr, parts: &[(Fr, u8)]) -> Option<Result<Result<bool, String>, Panicked>> {
        let p = (self.from_parts)(parts)?;
        Some(guarded(|| self.t().verify(leaf, &p).map_err(estr)))
    }
    fn kind(&self) -> BackendKind {
        self.kind
    }
    fn apply(&mut self, op: &ROp) -> Option<OpResult> {
        let depth = self.depth;
        Some(match op {
            ROp::Set(i, v) => guarded(|| self.tm().set(*i, *v).map_err(estr)),
            ROp::Delete(i) => guarded(|| self.tm().delete(*i).map_err(estr)),
            ROp::Append(v) => guarded(|| self.tm().update_next(*v).map_err(estr)),
            ROp::SetRange(s, v) => guarded(|| self.tm().set_range(*s, v.clone().into_iter()).map_err(estr)),
            ROp::Batch(s, v, r) => guarded(|| {
                self.tm()
                    .override_range(*s, v.clone().into_iter(), r.clone().into_iter())
                    .map_err(estr)
            }),
            ROp::ComputeRoot => guarded(|| self.tm().compute_root().map(|_| ()).map_err(estr)),
            ROp::Reset => {
                self.tree = None; // drop first (persistent backends hold a lock)
                let t = guarded(|| (self.mk)(depth));
                match t {
                    Ok(t) => {
                        self.tree = Some(t);
                        Ok(Ok(()))
                    }
                    Err(p) => Err(p),
                }
            }
            ROp::SetMetadata(b) => guarded(|| self.tm().set_metadata(b).map_err(estr)),
            ROp::Flush => guarded(|| self.tm().close_db_connection().map_err(estr)),
            ROp::Init(_) | ROp::Reopen => return None,
        })
    }
    fn root(&self) -> Fr {
        self.t().root()
    }
    fn leaves_set(&mut self) -> usize {
        self.t().leaves_set()
    }
    fn get(&self, i: usize) -> Result<Fr, String> {
        self.t().get(i).map_err(estr)
    }
    fn subtree_root(&self, level: usize, i: usize) -> Result<Fr, String> {
        self.t().get_subtree_root(level, i).map_err(estr)
    }
    fn empty_list(&self) -> Vec<usize> {
        self.t().get_empty_leaves_indices()
    }
    fn metadata(&self) -> Result<Vec<u8>, String> {
        self.t().metadata().map_err(estr)
    }
}

fn full_from_parts(p: &[(Fr, u8)]) -> Option<zerokit_utils::FullMerkleProof<PoseidonHash>> {
    use zerokit_utils::FullMerkleBranch;
    let mut v = vec![];
    for (e, b) in p {
        v.push(match b {
            0 => FullMerkleBranch::Left(*e),
            1 => FullMerkleBranch::Right(*e),
            _ => return None,
        });
    }
    Some(zerokit_utils::FullMerkleProof(v))
}

pub fn full_backend(depth: usize) -> TraitBackend<FullMerkleTree<PoseidonHash>> {
    let mk = Box::new(|d: usize| <FullMerkleTree<PoseidonHash> as ZerokitMerkleTree>::default(d).unwrap());
    TraitBackend { kind: BackendKind::Full, tree: Some(mk(depth)), depth, mk, from_parts: full_from_parts }
}
pub fn optimal_backend(depth: usize) -> TraitBackend<OptimalMerkleTree<PoseidonHash>> {
    let mk = Box::new(|d: usize| <OptimalMerkleTree<PoseidonHash> as ZerokitMerkleTree>::default(d).unwrap());
    TraitBackend { kind: BackendKind::Optimal, tree: Some(mk(depth)), depth, mk, from_parts: |p| Some(zerokit_utils::OptimalMerkleProof(p.to_vec())) }
}
pub fn pm_backend(depth: usize) -> TraitBackend<PmTree> {
    let mk = Box::new(|d: usize| <PmTree as ZerokitMerkleTree>::default(d).unwrap());
    TraitBackend { kind: BackendKind::Pm, tree: Some(mk(depth)), depth, mk, from_parts: |p| Some(rln::pm_tree_adapter::PmTreeProof::verif_from_parts(p.to_vec())) }
}

/// persistent tree on a non-temporary path (C15 reopen / C16)
pub fn pm_config(path: &std::path::Path, extra: &str) -> PmtreeConfig {
    let s = format!(
        "{{\"path\": {:?}, \"temporary\": false{}{}}}",
        path.to_string_lossy(),
        if extra.is_empty() { "" } else { ", " },
        extra
    );
    PmtreeConfig::from_str(&s).expect("config")
}

pub struct PmPersistent {
    pub tree: Option<PmTree>,
    pub depth: usize,
    pub path: std::path::PathBuf,
    pub extra: String,
}

impl PmPersistent {
    pub fn open(depth: usize, path: std::path::PathBuf, extra: &str) -> Result<Self, String> {
        let cfg = pm_config(&path, extra);
        let tree = PmTree::new(depth, Fr::from(0u64), cfg).map_err(estr)?;
        Ok(PmPersistent { tree: Some(tree), depth, path, extra: extra.to_string() })
    }
    fn t(&self) -> &PmTree {
        self.tree.as_ref().unwrap()
    }
    fn tm(&mut self) -> &mut PmTree {
        self.tree.as_mut().unwrap()
    }
}

impl Backend for PmPersistent {
    fn kind(&self) -> BackendKind {
        BackendKind::Pm
    }
    fn proof_obs(&self, i: usize, leaves: &[Fr]) -> Result<Result<ProofObs, String>, Panicked> {
        generic_proof_obs(self.t(), i, leaves)
    }
    fn verify_parts(&self, leaf: &Fr, parts: &[(Fr, u8)]) -> Option<Result<Result<bool, String>, Panicked>> {
        let p = rln::pm_tree_adapter::PmTreeProof::verif_from_parts(parts.to_vec());
        Some(guarded(|| self.t().verify(leaf, &p).map_err(estr)))
    }
    fn apply(&mut self, op: &ROp) -> Option<OpResult> {
        Some(match op {
            ROp::Set(i, v) => guarded(|| self.tm().set(*i, *v).map_err(estr)),
            ROp::Delete(i) => guarded(|| self.tm().delete(*i).map_err(estr)),
            ROp::Append(v) => guarded(|| self.tm().update_next(*v).map_err(estr)),
            ROp::SetRange(s, v) => guarded(|| self.tm().set_range(*s, v.clone().into_iter()).map_err(estr)),
            ROp::Batch(s, v, r) => guarded(|| {
                self.tm()
                    .override_range(*s, v.clone().into_iter(), r.clone().into_iter())
                    .map_err(estr)
            }),
            ROp::ComputeRoot => guarded(|| self.tm().compute_root().map(|_| ()).map_err(estr)),
            ROp::SetMetadata(b) => guarded(|| self.tm().set_metadata(b).map_err(estr)),
            ROp::Flush => guarded(|| self.tm().close_db_connection().map_err(estr)),
            ROp::Reopen => {
                // flush, drop, open again at the same location
                let r = guarded(|| self.tm().close_db_connection().map_err(estr));
                match r {
                    Ok(Ok(())) => {}
                    other => return Some(other),
                }
                self.tree = None;
                let (depth, path, extra) = (self.depth, self.path.clone(), self.extra.clone());
                if std::env::var("VERIF_DEBUG_REOPEN").is_ok() {
                    let c: zerokit_utils::Config = zerokit_utils::Config::new().temporary(false).path(path.clone());
                    match zerokit_utils::pmtree::MerkleTree::<zerokit_utils::SledDB, PoseidonHash>::load(c) {
                        Ok(t) => drop(t),
                        Err(e) => eprintln!("DEBUG direct load failed: {e:?}"),
                    }
                }
                match guarded(|| PmTree::new(depth, Fr::from(0u64), pm_config(&path, &extra)).map_err(estr)) {
                    Ok(Ok(t)) => {
                        self.tree = Some(t);
                        Ok(Ok(()))
                    }
                    Ok(Err(e)) => {
                        // keep the harness usable: re-open must succeed for the history to continue
                        Ok(Err(format!("reopen failed: {e}")))
                    }
                    Err(p) => Err(p),
                }
            }
            ROp::Reset | ROp::Init(_) => return None,
        })
    }
    fn root(&self) -> Fr {
        self.t().root()
    }
    fn leaves_set(&mut self) -> usize {
        self.t().leaves_set()
    }
    fn get(&self, i: usize) -> Result<Fr, String> {
        self.t().get(i).map_err(estr)
    }
    fn subtree_root(&self, level: usize, i: usize) -> Result<Fr, String> {
        self.t().get_subtree_root(level, i).map_err(estr)
    }
    fn empty_list(&self) -> Vec<usize> {
        self.t().get_empty_leaves_indices()
    }
    fn metadata(&self) -> Result<Vec<u8>, String> {
        self.t().metadata().map_err(estr)
    }
}

/// RLN's byte API (the build's selected backend = pmtree), decoded with the independent codec
pub struct RlnBackend {
    pub rln: RLN,
    pub depth: usize,
}

impl RlnBackend {
    pub fn new(depth: usize) -> Self {
        RlnBackend { rln: RLN::new(depth, Cursor::new("{}".to_string())).expect("RLN::new"), depth }
    }
}

fn enc_leaves(v: &[Fr]) -> Vec<u8> {
    codec_ref::enc_vec_fr(&v.iter().map(fr_to_big).collect::<Vec<_>>())
}

fn dec_fr32(b: &[u8]) -> Result<Fr, String> {
    if b.len() != 32 {
        return Err(format!("expected 32 bytes, got {}", b.len()));
    }
    let v = num_bigint::BigUint::from_bytes_le(b);
    if &v >= crate::models::field::p() {
        return Err("non-canonical field element in output".into());
    }
    Ok(crate::models::field::big_to_fr(&v))
}

impl Backend for RlnBackend {
    fn kind(&self) -> BackendKind {
        BackendKind::RlnApi
    }
    fn proof_obs(&self, i: usize, _leaves: &[Fr]) -> Result<Result<ProofObs, String>, Panicked> {
        guarded(|| {
            let mut out = crate::gens::Sink::new();
            self.rln.get_proof(i, &mut out).map_err(estr)?;
            let (els, bits) = codec_ref::dec_merkle_proof(&out.data).map_err(|e| format!("get_proof bytes do not follow the documented layout: {e}"))?;
            let mut elements = vec![];
            for e in &els {
                if e >= crate::models::field::p() {
                    return Err("non-canonical path element in get_proof output".to_string());
                }
                elements.push(crate::models::field::big_to_fr(e));
            }
            let leaf_index = bits.iter().rev().fold(0usize, |acc, b| (acc << 1) + *b as usize);
            Ok(ProofObs { view: ProofView { length: elements.len(), leaf_index, elements, bits }, roots: vec![], verdicts: vec![] })
        })
    }
    fn verify_parts(&self, _leaf: &Fr, _parts: &[(Fr, u8)]) -> Option<Result<Result<bool, String>, Panicked>> {
        None
    }
    fn apply(&mut self, op: &ROp) -> Option<OpResult> {
        let depth = self.depth;
        let rln = &mut self.rln;
        Some(match op {
            ROp::Set(i, v) => guarded(|| rln.set_leaf(*i, crate::gens::rd(&fr_to_le32(v))).map_err(estr)),
            ROp::Delete(i) => guarded(|| rln.delete_leaf(*i).map_err(estr)),
            ROp::Append(v) => guarded(|| rln.set_next_leaf(crate::gens::rd(&fr_to_le32(v))).map_err(estr)),
            ROp::SetRange(s, v) => guarded(|| rln.set_leaves_from(*s, crate::gens::rd(&enc_leaves(v))).map_err(estr)),
            ROp::Batch(s, v, r) => {
                if r.iter().any(|x| *x > 255) {
                    return None; // removal indices travel as bytes in this API
                }
                let idx: Vec<u8> = r.iter().map(|x| *x as u8).collect();
                guarded(|| {
                    rln.atomic_operation(*s, crate::gens::rd(&enc_leaves(v)), crate::gens::rd(&codec_ref::enc_vec_u8(&idx)))
                        .map_err(estr)
                })
            }
            ROp::Init(v) => guarded(|| rln.init_tree_with_leaves(crate::gens::rd(&enc_leaves(v))).map_err(estr)),
            ROp::Reset => guarded(|| rln.set_tree(depth).map_err(estr)),
            ROp::SetMetadata(b) => guarded(|| rln.set_metadata(b).map_err(estr)),
            ROp::Flush => guarded(|| rln.flush().map_err(estr)),
            ROp::ComputeRoot | ROp::Reopen => return None,
        })
    }
    fn root(&self) -> Fr {
        let mut out = crate::gens::Sink::new();
        self.rln.get_root(&mut out).expect("get_root");
        dec_fr32(&out.data).expect("root bytes")
    }
    fn leaves_set(&mut self) -> usize {
        self.rln.leaves_set()
    }
    fn get(&self, i: usize) -> Result<Fr, String> {
        let mut out = crate::gens::Sink::new();
        self.rln.get_leaf(i, &mut out).map_err(estr)?;
        dec_fr32(&out.data)
    }
    fn subtree_root(&self, level: usize, i: usize) -> Result<Fr, String> {
        let mut out = vec![];
        self.rln.get_subtree_root(level, i, &mut out).map_err(estr)?;
        dec_fr32(&out)
    }
    fn empty_list(&self) -> Vec<usize> {
        let mut out = crate::gens::Sink::new();
        self.rln.get_empty_leaves_indices(&mut out).expect("get_empty_leaves_indices");
        codec_ref::dec_vec_usize(&out.data).expect("index list layout").into_iter().map(|x| x as usize).collect()
    }
    fn metadata(&self) -> Result<Vec<u8>, String> {
        let mut out = vec![];
        self.rln.get_metadata(&mut out).map_err(estr)?;
        Ok(out)
    }
}

pub fn make_backend(kind: BackendKind, depth: usize) -> Box<dyn Backend> {
    match kind {
        BackendKind::Full => Box::new(full_backend(depth)),
        BackendKind::Optimal => Box::new(optimal_backend(depth)),
        BackendKind::Pm => Box::new(pm_backend(depth)),
        BackendKind::RlnApi => Box::new(RlnBackend::new(depth)),
    }
}

// ---------------------------------------------------------------------------------------------
// known-finding classes: computed from the request and the model state, before touching the code
// ---------------------------------------------------------------------------------------------

pub fn classify(kind: BackendKind, op: &ROp, m: &TreeModel) -> Vec<String> {
    let b = kind.name();
    let mut sigs = vec![];
    let cap = m.cap();
    if let ROp::Batch(start, leaves, rem) = op {
        let n = leaves.len();
        let mut sorted = rem.clone();
        sorted.sort();
        let fits = m.batch_fits(*start, n);
        let any_oob = rem.iter().any(|r| *r >= cap);
        if any_oob {
            sigs.push(format!("{b}/batch/removal>=cap"));
        }
        if !fits {
            sigs.push(format!("{b}/batch/range-beyond-capacity"));
        }
        if n > 0 && !rem.is_empty() {
            // the mixed arm
            let first = if kind == BackendKind::Pm || kind == BackendKind::RlnApi { sorted[0] } else { rem[0] };
            if first < *start {
                sigs.push(format!("{b}/batch/mixed/first-removal<start"));
            } else if first > *start {
                sigs.push(format!("{b}/batch/mixed/first-removal>start"));
            }
            let end = start.wrapping_add(n);
            if sorted.iter().any(|r| *r >= end) {
                sigs.push(format!("{b}/batch/mixed/removal-after-range"));
            }
            // the only mixed shape the persistent adapter handles as documented
            let aligned = *start == 0 && sorted[0] == 0 && sorted.iter().all(|r| *r < end);
            if !aligned {
                sigs.push(format!("{b}/batch/mixed/unaligned"));
            }
        }
        if n == 0 && rem.len() >= 2 {
            let contiguous = sorted.windows(2).all(|w| w[1] == w[0] + 1 || w[1] == w[0]);
            if !contiguous {
                sigs.push(format!("{b}/batch/remove-only/non-contiguous"));
            }
            if sorted.iter().any(|r| *r >= m.mark) {
                sigs.push(format!("{b}/batch/remove-only/beyond-mark"));
            }
        }
        if rem.is_empty() && n > 0 {
            sigs.push(format!("{b}/batch/write-only"));
        }
        if n == 0 && rem.len() == 1 && rem[0] >= m.mark {
            sigs.push(format!("{b}/batch/remove-one/beyond-mark"));
        }
    }
    if let ROp::SetRange(start, leaves) = op {
        if start.checked_add(leaves.len()).is_none() {
            sigs.push(format!("{b}/set_range/start-overflow"));
        }
        if *start > 0 && !leaves.is_empty() {
            sigs.push(format!("{b}/set_range/start>0"));
        }
        if leaves.len() >= 2 {
            sigs.push(format!("{b}/set_range/len>=2"));
        }
        if leaves.is_empty() {
            sigs.push(format!("{b}/set_range/empty"));
            if *start > m.mark {
                sigs.push(format!("{b}/set_range/empty-beyond-mark"));
            }
        }
    }
    match op {
        ROp::Set(i, _) | ROp::Delete(i) if *i >= cap => sigs.push(format!("{b}/{}/index>=cap", op.kind())),
        ROp::Append(_) if m.mark >= cap => sigs.push(format!("{b}/append/full")),
        ROp::Append(_) => sigs.push(format!("{b}/append")),
        ROp::Reopen if !m.written.is_empty() => sigs.push(format!("{b}/reopen/written-positions")),
        ROp::ComputeRoot => sigs.push(format!("{b}/compute_root")),
        _ => {}
    }
    sigs
}

// ---------------------------------------------------------------------------------------------
// comparison of a backend with its model
// ---------------------------------------------------------------------------------------------

#[derive(Clone, Copy, Debug, PartialEq, Eq)]
pub struct Focus {
    pub leaves: bool,
    pub roots: bool,
    pub mark: bool,
    pub flags: bool,
    pub metadata: bool,
}

impl Focus {
    pub const STATE: Focus = Focus { leaves: true, roots: true, mark: true, flags: false, metadata: false };
    pub const FLAGS: Focus = Focus { leaves: false, roots: false, mark: true, flags: true, metadata: false };
    pub const ALL: Focus = Focus { leaves: true, roots: true, mark: true, flags: true, metadata: true };
}

/// positions to look at: all for small trees, otherwise touched ones + neighbours + fixed probes
pub fn probe_positions(m: &TreeModel, extra: &[usize]) -> Vec<usize> {
    let cap = m.cap();
    if cap <= 64 {
        return (0..cap).collect();
    }
    if extra.len() > 64 {
        // after a large range / batch write: every position of a mid-size tree, otherwise every
        // written position and its sibling (a storage layer that loses part of a large write must
        // not slip between sampled probes)
        if cap <= 8192 {
            return (0..cap).collect();
        }
        let mut v: Vec<usize> = vec![0, 1, cap / 2 - 1, cap / 2, cap - 2, cap - 1];
        for &i in extra {
            if i < cap {
                v.push(i);
                v.push(i ^ 1);
            }
        }
        v.sort();
        v.dedup();
        return v;
    }
    let mut v: Vec<usize> = vec![0, 1, cap / 2 - 1, cap / 2, cap - 2, cap - 1];
    for (&i, _) in m.leaves.iter() {
        v.push(i);
        v.push(i ^ 1);
    }
    for &i in extra {
        if i < cap {
            v.push(i);
            v.push(i ^ 1);
        }
    }
    if m.mark < cap {
        v.push(m.mark);
    }
    v.sort();
    v.dedup();
    v.truncate(200);
    v
}

thread_local! {
    /// the state is read back by the interpreter's helper thread (a second thread of the same caller,
    /// taking turns with the one that writes) — set per case by the properties that use it
    static OBSERVE_ON_HELPER: std::cell::Cell<bool> = const { std::cell::Cell::new(false) };
}

pub fn observe_on_helper(on: bool) {
    OBSERVE_ON_HELPER.with(|c| c.set(on));
}

pub fn compare(b: &mut dyn Backend, m: &TreeModel, focus: Focus, extra: &[usize]) -> Result<u64, String> {
    if OBSERVE_ON_HELPER.with(|c| c.get()) {
        let io = crate::gens::io_style();
        return on_helper(|| {
            crate::gens::set_io_style(io);
            compare_here(b, m, focus, extra)
        });
    }
    compare_here(b, m, focus, extra)
}

fn compare_here(b: &mut dyn Backend, m: &TreeModel, focus: Focus, extra: &[usize]) -> Result<u64, String> {
    let name = b.kind().name();
    let mut evals = 0u64;
    let g = guarded(|| -> Result<u64, String> {
        let mut n = 0u64;
        if focus.mark {
            let got = b.leaves_set();
            if got != m.mark {
                return Err(format!("{name}: leaves_set() = {got}, ideal tree high-water mark = {}", m.mark));
            }
            n += 1;
        }
        let probes = probe_positions(m, extra);
        if focus.leaves {
            for &i in &probes {
                let got = b.get(i).map_err(|e| format!("{name}: get({i}) failed: {e}"))?;
                let want = m.get(i).unwrap();
                if got != want {
                    return Err(format!("{name}: get({i}) = {}, ideal tree has {}", fr_to_big(&got), fr_to_big(&want)));
                }
                n += 1;
            }
        }
        if focus.roots {
            let got = b.root();
            let want = m.root();
            if got != want {
                return Err(format!("{name}: root() = {}, ideal tree root = {}", fr_to_big(&got), fr_to_big(&want)));
            }
            n += 1;
            let levels: Vec<usize> = if m.depth <= 6 || extra.len() > 64 { (0..=m.depth).collect() } else { vec![0, 1, m.depth / 2, m.depth - 1, m.depth] };
            // after a large write on a tree of up to 8192 leaves the ideal tree's nodes are computed
            // bottom-up once instead of recursively per probe
            let dense = if extra.len() > 64 && m.depth <= 13 { Some(m.dense_levels()) } else { None };
            for level in levels {
                let mut seen = std::collections::BTreeSet::new();
                for &i in &probes {
                    let node = i >> (m.depth - level);
                    if !seen.insert(node) {
                        continue;
                    }
                    let got = b.subtree_root(level, i).map_err(|e| format!("{name}: get_subtree_root({level},{i}) failed: {e}"))?;
                    let want = match &dense {
                        Some(d) => d[level][node],
                        None => m.subtree_root(level, i).unwrap(),
                    };
                    if got != want {
                        return Err(format!("{name}: get_subtree_root({level},{i}) = {}, ideal = {}", fr_to_big(&got), fr_to_big(&want)));
                    }
                    n += 1;
                }
            }
        }
        if focus.flags {
            let got = b.empty_list();
            let want = m.empty_list();
            if got != want {
                return Err(format!("{name}: get_empty_leaves_indices() = {got:?}, expected {want:?} (mark {})", m.mark));
            }
            n += 1;
        }
        if focus.metadata {
            let got = b.metadata().map_err(|e| format!("{name}: metadata() failed: {e}"))?;
            if got != m.metadata {
                let show = |b: &[u8]| format!("[{} bytes] {:?}{}", b.len(), &b[..b.len().min(16)], if b.len() > 16 { "…" } else { "" });
                return Err(format!("{name}: metadata() = {}, expected {}", show(&got), show(&m.metadata)));
            }
            n += 1;
        }
        Ok(n)
    });
    match g {
        Ok(Ok(n)) => evals += n,
        Ok(Err(e)) => return Err(e),
        Err(p) => return Err(format!("{name}: observation panicked: {}", p.0)),
    }
    Ok(evals)
}

/// same observable state? (used to decide whether an operation had an effect in the model)
pub fn model_state_eq(a: &TreeModel, b: &TreeModel, with_flags: bool) -> bool {
    let norm = |m: &TreeModel| -> Vec<(usize, Fr)> {
        m.leaves.iter().filter(|(_, v)| **v != m.default_leaf).map(|(k, v)| (*k, *v)).collect()
    };
    a.mark == b.mark && norm(a) == norm(b) && a.metadata == b.metadata && (!with_flags || a.written == b.written)
}

pub struct StepReport {
    pub skipped_known: Vec<String>,
    pub rejected_ok: bool,
    pub evals: u64,
}

/// Execute one operation on (backend, model) and judge it. `panic_is_violation`: whether a panic
/// of the operation itself is a violation even when the state is unchanged.
pub fn step(
    ctx: &Ctx,
    b: &mut dyn Backend,
    m: &mut TreeModel,
    op: &Op,
    focus: Focus,
    panic_is_violation: bool,
) -> Result<StepReport, String> {
    let rop = op.resolve(m);
    let name = b.kind().name();
    let sigs = classify(b.kind(), &rop, m);
    let known: Vec<String> = sigs.into_iter().filter(|s| ctx.is_known(s)).collect();
    if !known.is_empty() {
        return Ok(StepReport { skipped_known: known, rejected_ok: false, evals: 0 });
    }
    let mut next = m.clone();
    let verdict = rop.apply_model(&mut next);
    let Some(res) = b.apply(&rop) else {
        return Ok(StepReport { skipped_known: vec![], rejected_ok: false, evals: 0 });
    };
    let touched: Vec<usize> = match &rop {
        ROp::Set(i, _) | ROp::Delete(i) => vec![*i],
        ROp::SetRange(s, v) => (0..v.len().min(4096)).map(|k| s.wrapping_add(k)).collect(),
        ROp::Batch(s, v, r) => (0..v.len().min(4096)).map(|k| s.wrapping_add(k)).chain(r.iter().copied()).collect(),
        _ => vec![],
    };
    let desc = rop.describe();
    let had_effect = !model_state_eq(m, &next, focus.flags);
    match res {
        Ok(Ok(())) => {
            if verdict == Verdict::Rejected {
                // accepted although the model rejects: the state must then be unchanged
                let n = compare(b, m, focus, &touched).map_err(|e| {
                    format!("{name}: {desc} must be rejected (beyond capacity / nothing to do) but returned Ok and changed the state: {e}")
                })?;
                return Ok(StepReport { skipped_known: vec![], rejected_ok: false, evals: n + 1 });
            }
            *m = next;
            let n = compare(b, m, focus, &touched).map_err(|e| format!("after {desc} (returned Ok): {e}"))?;
            Ok(StepReport { skipped_known: vec![], rejected_ok: false, evals: n + 1 })
        }
        Ok(Err(e)) => {
            // a removal index outside the tree: rejecting the whole batch (state unchanged) and
            // ignoring that index are both accepted (DESIGN Appendix B, open point)
            // likewise a removal-only batch whose (irrelevant) start lies beyond the capacity
            let ambiguous = matches!(&rop, ROp::Batch(st, v, r) if r.iter().any(|x| *x >= m.cap()) || (v.is_empty() && *st > m.cap()))
                // initialisation with no leaves: "nothing to do" (rejected, unchanged) or a fresh tree
                || matches!(&rop, ROp::Init(v) if v.is_empty());
            if verdict != Verdict::Rejected && had_effect && !ambiguous {
                // a valid request was refused
                let unchanged = compare(b, m, focus, &touched).is_ok();
                return Err(format!(
                    "{name}: valid request {desc} was rejected with error '{e}' (state {})",
                    if unchanged { "unchanged" } else { "CHANGED" }
                ));
            }
            let n = compare(b, m, focus, &touched).map_err(|x| format!("{name}: {desc} returned Err('{e}') but changed the state: {x}"))?;
            Ok(StepReport { skipped_known: vec![], rejected_ok: true, evals: n + 1 })
        }
        Err(p) => {
            if panic_is_violation || (verdict != Verdict::Rejected && had_effect) {
                return Err(format!("{name}: {desc} panicked: {}", p.0));
            }
            let n = compare(b, m, focus, &touched).map_err(|x| format!("{name}: {desc} panicked ({}) and changed the state: {x}", p.0))?;
            Ok(StepReport { skipped_known: vec![], rejected_ok: true, evals: n + 1 })
        }
    }
}

// ---------------------------------------------------------------------------------------------
// generators
// ---------------------------------------------------------------------------------------------

pub fn vals(max: usize) -> BoxedStrategy<Vec<u8>> {
    proptest::collection::vec(0u8..POOL as u8, 0..=max).boxed()
}

/// a few hundred to a couple of thousand leaves in one request (more node entries than any
/// batching threshold a storage layer is likely to use); values cycle through the pool
pub fn big_vals() -> BoxedStrategy<Vec<u8>> {
    (prop_oneof![Just(257usize), Just(512usize), Just(600usize), Just(1024usize), Just(1500usize), Just(2100usize), Just(3000usize), Just(4097usize), 65usize..2000, 2000usize..5000], 1u8..POOL as u8)
        .prop_map(|(n, k)| (0..n).map(|i| 1 + ((i as u8).wrapping_mul(k)) % (POOL as u8 - 1)).collect())
        .boxed()
}

pub fn op_basic() -> BoxedStrategy<Op> {
    prop_oneof![
        1 => (prop_oneof![Just(Pos { kind: PosKind::Zero, raw: 0 }), Just(Pos { kind: PosKind::Mark, raw: 0 }), any::<u16>().prop_map(|raw| Pos { kind: PosKind::Uniform, raw: raw % 256 })], big_vals()).prop_map(|(p, v)| Op::SetRange(p, v)),
        6 => (pos_any(), 0u8..POOL as u8).prop_map(|(p, v)| Op::Set(p, v)),
        3 => pos_any().prop_map(Op::Delete),
        4 => (0u8..POOL as u8).prop_map(Op::Append),
        6 => (pos_any(), vals(9)).prop_map(|(p, v)| Op::SetRange(p, v)),
        1 => Just(Op::Reset),
    ]
    .boxed()
}

pub fn removal_set() -> BoxedStrategy<Vec<Pos>> {
    prop_oneof![
        10 => proptest::collection::vec(pos_in_range(), 0..6),
        1 => proptest::collection::vec(pos_any(), 1..4),
        1 => proptest::collection::vec(pos_in_range(), 20..60),
    ]
    .boxed()
}

pub fn op_batch() -> BoxedStrategy<Op> {
    (pos_any(), vals(7), removal_set()).prop_map(|(p, v, r)| Op::Batch(p, v, r)).boxed()
}

pub fn depth_strategy(tier: Tier) -> BoxedStrategy<usize> {
    match tier {
        Tier::Quick => prop_oneof![20 => 1usize..=6, 2 => Just(10usize), 1 => Just(12usize)].boxed(),
        Tier::Thorough => prop_oneof![40 => 1usize..=6, 4 => Just(10usize), 2 => Just(12usize), 1 => Just(13usize), 2 => Just(20usize)].boxed(),
    }
}

/// Depth-20 histories on the persistent backend: a range / batch write far to the right makes the
/// external pmtree crate collect (and write back) every node left of the range end — about a minute
/// and several GB per request. Not a listed property; such requests are kept in the first 4096
/// positions at depth 20 so that the thorough tier stays within the machine's memory.
pub fn tame_for_depth20(depth: usize, ops: &mut [Op]) {
    if depth < 16 {
        return;
    }
    // can the leaf count get large? (a single write far to the right moves it there; appends and
    // mark-relative positions then follow it)
    let far = |p: &Pos| match p.kind {
        PosKind::Uniform => p.raw >= 256,
        PosKind::NearEnd | PosKind::CapMinus1 => true,
        _ => false,
    };
    let mark_large = ops.iter().any(|o| matches!(o, Op::Set(p, _) if far(p)));
    let small = |p: &mut Pos| {
        let keep = match p.kind {
            PosKind::Zero | PosKind::Cap | PosKind::CapPlus1 | PosKind::Max => true,
            PosKind::Mark | PosKind::MarkMinus1 | PosKind::MarkPlus1 => !mark_large,
            _ => false,
        };
        if !keep {
            *p = Pos { kind: PosKind::Uniform, raw: p.raw % 256 };
        }
    };
    for op in ops.iter_mut() {
        match op {
            Op::SetRange(p, _) => small(p),
            // the persistent adapter rewrites the whole span between the smallest and the largest
            // removal index, so removals are kept close together as well
            Op::Batch(p, _, rem) => {
                small(p);
                for r in rem.iter_mut() {
                    small(r);
                }
            }
            _ => {}
        }
    }
}

#[derive(Clone, Debug, Serialize, Deserialize)]
pub struct TreeCase {
    pub depth: usize,
    pub backends: Vec<BackendKind>,
    pub ops: Vec<Op>,
}

pub fn history_has(ops: &[Op], f: impl Fn(&Op) -> bool) -> bool {
    ops.iter().any(f)
}

pub fn proof_view<P: ZerokitMerkleProof<Index = u8, Hasher = PoseidonHash>>(p: &P) -> ProofView {
    ProofView { length: p.length(), leaf_index: p.leaf_index(), elements: p.get_path_elements(), bits: p.get_path_index() }
}

#[allow(dead_code)]
pub fn fx(v: &Fr) -> Fx {
    Fx(*v)
}

/// the trees and the RLN object may be handed from one thread of a caller to another (they are
/// `Send`); the second-thread observation relies on nothing more
#[allow(dead_code)]
fn _backends_are_send() {
    fn s<T: Send>() {}
    s::<FullMerkleTree<PoseidonHash>>();
    s::<OptimalMerkleTree<PoseidonHash>>();
    s::<PmTree>();
    s::<RLN>();
}
