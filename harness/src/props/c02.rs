//! C02 — verification accepts only untampered messages bound to signal and root.

use crate::engine::*;
use crate::models::codec_ref as cr;
use crate::models::field::{big_to_fr, fr_to_big, p};
use crate::models::{keccak_ref, poseidon_ref};
use crate::pipeline::*;
use crate::models::tree_model::TreeModel;
use crate::rlnh::new_rln;
use num_bigint::BigUint;
use proptest::prelude::*;
use serde::{Deserialize, Serialize};

use std::sync::OnceLock;

pub struct C02;

#[derive(Clone, Copy, Debug, Serialize, Deserialize, PartialEq, Eq)]
pub enum Target {
    Verify,
    VerifyRln,
    VerifyRoots,
}

#[derive(Clone, Copy, Debug, Serialize, Deserialize, PartialEq, Eq)]
pub enum NewVal {
    Plus1,
    Minus1,
    OtherField(u8),
    Zero,
    Random(u64),
    FromOtherMessage,
}

#[derive(Clone, Debug, Serialize, Deserialize)]
pub enum Mutation {
    None,
    Field(u8, NewVal),
    Swap(u8, u8),
    ProofBit(u16),
    ProofFromOtherMessage,
    SignalFlip { pos: u16, fix_len: bool },
    SignalAppend { byte: u8, fix_len: bool },
    SignalTruncate { fix_len: bool },
    SignalEmpty,
    SignalOther(Vec<u8>),
    DeclaredLenLongerWithTail(u8),
    RootSet { with_root_at: Option<u8>, others: u8, near_miss: bool },
    /// root sets made of distinguished values: kind 0 = zero entries, 1 = the empty tree's root,
    /// 2 = p-1, 3 = one; `count` copies, optionally with the real root appended
    RootSetSpecial { kind: u8, count: u8, with_root: bool },
    /// the verifier's own tree changes after the message was produced (and may change back):
    /// verify_rln_proof is asked after every step
    VerifierTree(Vec<TOp>),
    /// the same value under another 32-byte encoding: v + k*p (k = 1..5, as long as it fits)
    FieldAlias(u8, u8),
    /// declared signal length = real length + m * 2^shift (shift in {8, 16, 32, 48, 56, 63})
    DeclaredLenHighBits { shift: u8, m: u8 },
    /// the input ends early: kind 0 = right after the five values (no signal part at all), 1 = after
    /// the length field, 2 = one byte short, 3 = at a generated position
    Cut { kind: u8, sel: u16 },
    /// the unmodified message is shown to a second verifier in the same process that holds the same
    /// tree but another verification key (the shipped key file with two entries of the public-input
    /// part exchanged): the proof is not valid for the carried values under that key
    VerifierWithOtherKey,
}

#[derive(Clone, Copy, Debug, Serialize, Deserialize, PartialEq, Eq)]
pub enum TOp {
    /// write a value (pool index; 0 = the default leaf) at a position other than the prover's
    SetOther(u16, u8),
    DeleteOther(u16),
    OverwriteProver(u8),
    DeleteProver,
    RestoreProver,
    /// put back every leaf this case has touched
    RestoreAll,
}

#[derive(Clone, Debug, Serialize, Deserialize)]
pub struct Case {
    pub golden: u8,
    pub target: Target,
    pub mutation: Mutation,
}

static POOL: OnceLock<Result<Pool, String>> = OnceLock::new();
pub fn pool(ctx: &Ctx) -> Result<&'static Pool, String> {
    let n = ctx.tier.pick(6, 40);
    POOL.get_or_init(|| build_pool(ctx.seed ^ 0xc02, n, "pool-c02")).as_ref().map_err(|e| e.clone())
}

fn field_off(f: u8) -> usize {
    128 + (f as usize % 5) * 32
}

fn build(pool: &Pool, c: &Case) -> (Vec<u8>, Vec<u8>) {
    let g = &pool.msgs[c.golden as usize % pool.msgs.len()];
    let other = &pool.msgs[(c.golden as usize + 1) % pool.msgs.len()];
    let mut msg = g.msg.clone();
    let mut signal = g.signal.clone();
    let mut declared: Option<u64> = None;
    let mut tail: Vec<u8> = vec![];
    let mut roots: Vec<u8> = if c.target == Target::VerifyRoots { cr::enc_fr(&pool.root) } else { vec![] };
    match &c.mutation {
        Mutation::None => {}
        Mutation::Field(f, nv) => {
            let off = field_off(*f);
            let cur = BigUint::from_bytes_le(&msg[off..off + 32]);
            let newv = match nv {
                NewVal::Plus1 => (&cur + 1u32) % p(),
                NewVal::Minus1 => (&cur + p() - 1u32) % p(),
                NewVal::OtherField(k) => {
                    let o2 = field_off(f.wrapping_add(1 + k % 4));
                    BigUint::from_bytes_le(&msg[o2..o2 + 32])
                }
                NewVal::Zero => BigUint::from(0u32),
                NewVal::Random(r) => fr_to_big(&(big_to_fr(&cur) * ark_bn254::Fr::from(*r | 1) + ark_bn254::Fr::from(*r))),
                NewVal::FromOtherMessage => BigUint::from_bytes_le(&other.msg[off..off + 32]),
            };
            msg[off..off + 32].copy_from_slice(&cr::enc_fr(&newv));
        }
        Mutation::FieldAlias(f, k) => {
            let off = field_off(*f);
            let cur = BigUint::from_bytes_le(&msg[off..off + 32]);
            let mut k = (*k % 5) as u32 + 1;
            // the largest multiple that still fits into 32 bytes
            while k > 0 && (&cur + p() * k).bits() > 256 {
                k -= 1;
            }
            if k > 0 {
                let alias = &cur + p() * k;
                let mut b = alias.to_bytes_le();
                b.resize(32, 0);
                msg[off..off + 32].copy_from_slice(&b);
            }
        }
        Mutation::DeclaredLenHighBits { shift, m } => {
            let sh = [8u32, 16, 32, 48, 56, 63][*shift as usize % 6];
            let add = ((*m as u64 % 3) + 1).wrapping_shl(sh);
            declared = Some((signal.len() as u64).wrapping_add(add));
        }
        Mutation::Swap(a, b) => {
            let (oa, ob) = (field_off(*a), field_off(a.wrapping_add(1 + b % 4)));
            let va = msg[oa..oa + 32].to_vec();
            let vb = msg[ob..ob + 32].to_vec();
            msg[oa..oa + 32].copy_from_slice(&vb);
            msg[ob..ob + 32].copy_from_slice(&va);
        }
        Mutation::ProofBit(sel) => {
            let bit = pick_index(*sel, 1024);
            msg[bit / 8] ^= 1 << (bit % 8);
        }
        Mutation::ProofFromOtherMessage => msg[..128].copy_from_slice(&other.msg[..128]),
        Mutation::SignalFlip { pos, fix_len } => {
            if signal.is_empty() {
                signal.push(1);
                if !*fix_len {
                    declared = Some(0);
                }
            } else {
                let i = pick_index(*pos, signal.len());
                signal[i] ^= 0x01;
            }
        }
        Mutation::SignalAppend { byte, fix_len } => {
            let old = signal.len() as u64;
            signal.push(*byte);
            if !*fix_len {
                declared = Some(old); // the appended byte is outside the declared signal
            }
        }
        Mutation::SignalTruncate { fix_len } => {
            if !signal.is_empty() {
                if *fix_len {
                    signal.pop();
                } else {
                    declared = Some(signal.len() as u64 - 1);
                }
            }
        }
        Mutation::SignalEmpty => signal.clear(),
        Mutation::SignalOther(s) => signal = s.clone(),
        Mutation::DeclaredLenLongerWithTail(k) => {
            let extra = (*k % 7) as usize + 1;
            tail = vec![0u8; extra];
            declared = Some((signal.len() + extra) as u64);
        }
        Mutation::RootSet { with_root_at, others, near_miss } => {
            // mostly 0..4 other members; one in eight sets is large (hundreds of roots)
            let n_others = if *others >= 224 { 100 + (*others as u32 - 224) * 20 } else { (*others % 5) as u32 };
            let mut set: Vec<BigUint> = (0..n_others).map(|i| BigUint::from(777u32 + i)).collect();
            if *near_miss {
                set.push((&pool.root + 1u32) % p());
                set.push((&pool.root + p() - 1u32) % p());
            }
            if let Some(pos) = with_root_at {
                let at = (*pos as usize) % (set.len() + 1);
                set.insert(at, pool.root.clone());
            }
            roots = set.iter().flat_map(cr::enc_fr).collect();
        }
        Mutation::VerifierTree(_) | Mutation::Cut { .. } | Mutation::VerifierWithOtherKey => {}
        Mutation::RootSetSpecial { kind, count, with_root } => {
            let v = match kind % 4 {
                0 => BigUint::from(0u32),
                1 => crate::models::field::fr_to_big(&crate::models::tree_model::TreeModel::new(DEPTH, ark_bn254::Fr::from(0u64)).root()),
                2 => p() - 1u32,
                _ => BigUint::from(1u32),
            };
            let mut set: Vec<BigUint> = (0..(*count % 4) + 1).map(|_| v.clone()).collect();
            if *with_root {
                set.push(pool.root.clone());
            }
            roots = set.iter().flat_map(cr::enc_fr).collect();
        }
    }
    let mut input = match c.target {
        Target::Verify => msg,
        _ => {
            let mut v = msg;
            v.extend(cr::enc_u64(declared.unwrap_or(signal.len() as u64)));
            v.extend_from_slice(&signal);
            v.extend_from_slice(&tail);
            v
        }
    };
    if let Mutation::Cut { kind, sel } = &c.mutation {
        let n = input.len();
        let at = match kind % 4 {
            0 => 288,
            1 => 296,
            2 => n.saturating_sub(1),
            _ => pick_index(*sel, n),
        };
        input.truncate(at.min(n));
    }
    (input, roots)
}

thread_local! {
    /// a verifier instance per shard thread holding the pool's tree; every case restores it
    static VERIFIER: std::cell::RefCell<Option<(rln::public::RLN, TreeModel)>> = const { std::cell::RefCell::new(None) };
}

fn other_pos(pool: &Pool, g: &Golden, sel: u16) -> usize {
    let idx = g.req.index;
    let mut cands: Vec<usize> = vec![idx ^ 1, (idx + 2) % CAP, (idx + CAP / 2) % CAP, 0, CAP - 1];
    for m in &pool.msgs {
        if m.req.index != idx {
            cands.push(m.req.index);
            cands.push(m.req.index ^ 1);
        }
    }
    cands.push((sel as usize * 7919) % CAP);
    let p = cands[sel as usize % cands.len()];
    if p == idx { (idx + 3) % CAP } else { p }
}

fn run_verifier_tree(pool: &Pool, c: &Case, ops: &[TOp], o: &mut Outcome) {
    let g = &pool.msgs[c.golden as usize % pool.msgs.len()];
    let vi = verify_input(&g.msg, &g.signal);
    let root0 = pool.root.clone();
    VERIFIER.with(|cell| {
        let mut slot = cell.borrow_mut();
        if slot.is_none() {
            let mut r = new_rln(DEPTH);
            let mut m = TreeModel::new(DEPTH, ark_bn254::Fr::from(0u64));
            for x in &pool.msgs {
                let rc = x.req.rate_commitment();
                if set_leaf_big(&mut r, x.req.index, &rc).is_err() {
                    vfail!(o, "cannot build the verifier instance");
                    return;
                }
                m.set(x.req.index, crate::models::field::big_to_fr(&rc));
            }
            *slot = Some((r, m));
        }
        let (r, m) = slot.as_mut().unwrap();
        let pristine = m.clone();
        let mut touched: Vec<usize> = vec![];
        let mut broken = false;
        let zero = ark_bn254::Fr::from(0u64);
        for (k, op) in ops.iter().enumerate() {
            // apply to the implementation and to the model
            let mut writes: Vec<(usize, ark_bn254::Fr)> = vec![];
            match op {
                TOp::SetOther(sel, v) => writes.push((other_pos(pool, g, *sel), crate::props::trees::pool_value(*v))),
                TOp::DeleteOther(sel) => writes.push((other_pos(pool, g, *sel), zero)),
                TOp::OverwriteProver(v) => writes.push((g.req.index, crate::props::trees::pool_value(*v) + ark_bn254::Fr::from(1u64))),
                TOp::DeleteProver => writes.push((g.req.index, zero)),
                TOp::RestoreProver => writes.push((g.req.index, pristine.get(g.req.index).unwrap())),
                TOp::RestoreAll => {
                    for i in &touched {
                        writes.push((*i, pristine.get(*i).unwrap()));
                    }
                }
            }
            for (i, v) in writes {
                let is_delete = matches!(op, TOp::DeleteOther(_) | TOp::DeleteProver) && i < m.mark;
                let res = if is_delete { r.delete_leaf(i).map_err(|e| e.to_string()) } else { set_leaf_big(r, i, &fr_to_big(&v)) };
                if let Err(e) = res {
                    vfail!(o, "verifier tree step {k} {op:?}: tree operation failed: {e}");
                    broken = true;
                    break;
                }
                if is_delete { m.delete(i); } else { m.set(i, v); }
                if !touched.contains(&i) {
                    touched.push(i);
                }
            }
            if broken {
                break;
            }
            let root_now = fr_to_big(&m.root());
            let expect = root_now == root0;
            let v = call_verify_rln(r, &vi);
            o.evals += 2;
            if v.is_true() != expect {
                vfail!(o, "verifier tree step {k} {op:?}: verify_rln_proof returned {v:?} for a message bound to root {root0} while the verifier's tree root is {root_now} ({})", if expect { "same root: must accept" } else { "different root: must reject" });
                broken = true;
                break;
            }
            if !call_verify_roots(r, &vi, &cr::enc_fr(&root0)).is_true() {
                vfail!(o, "verifier tree step {k} {op:?}: verify_with_roots [message root] stopped accepting after the verifier's tree changed");
                broken = true;
                break;
            }
            if !expect {
                o.nontrivial = true;
                o.label("verifier-root-differs");
            } else if k > 0 {
                o.label("verifier-root-back-to-message-root");
            }
        }
        // restore for the next case
        if broken {
            *slot = None;
        } else {
            for i in &touched {
                let v = pristine.get(*i).unwrap();
                let _ = set_leaf_big(r, *i, &fr_to_big(&v));
            }
            *m = pristine;
            if get_root_big(r) != root0 {
                vfail!(o, "restoring the touched leaves did not restore the root (see C06)");
                *slot = None;
            }
        }
    });
}

thread_local! {
    /// a verifier per shard thread with the pool's tree and another verification key
    static OTHER_KEY: std::cell::RefCell<Option<rln::public::RLN>> = const { std::cell::RefCell::new(None) };
}

/// the shipped key file with IC[1] and IC[2] (section 3, 64 bytes per point) exchanged: a well-formed
/// key file holding a different verification key
fn zkey_with_other_verification_key() -> Result<Vec<u8>, String> {
    let zkey = rln::circuit::ZKEY_BYTES;
    let mut out = zkey.to_vec();
    let sections = u32::from_le_bytes(zkey[8..12].try_into().unwrap());
    let mut pos = 12usize;
    for _ in 0..sections {
        let id = u32::from_le_bytes(zkey[pos..pos + 4].try_into().unwrap());
        let len = u64::from_le_bytes(zkey[pos + 4..pos + 12].try_into().unwrap()) as usize;
        pos += 12;
        if id == 3 {
            if len != 6 * 64 {
                return Err(format!("IC section has {len} bytes, expected 384"));
            }
            let (a, b) = (pos + 64, pos + 128);
            out[a..a + 64].copy_from_slice(&zkey[b..b + 64]);
            out[b..b + 64].copy_from_slice(&zkey[a..a + 64]);
            return Ok(out);
        }
        pos += len;
    }
    Err("no IC section in the key file".into())
}

fn run_other_key(pool: &Pool, c: &Case, o: &mut Outcome) {
    let g = &pool.msgs[c.golden as usize % pool.msgs.len()];
    OTHER_KEY.with(|cell| {
        let mut slot = cell.borrow_mut();
        if slot.is_none() {
            let built = zkey_with_other_verification_key().and_then(|z| {
                guarded(|| rln::public::RLN::new_with_params(DEPTH, z, crate::rlnh::graph_bytes().to_vec(), std::io::Cursor::new("{}".to_string())).map_err(|e| e.to_string())).map_err(|p| p.0).and_then(|r| r)
            });
            let mut r = match built {
                Ok(r) => r,
                Err(e) => {
                    vfail!(o, "cannot build a verifier from the key file with exchanged IC entries: {e}");
                    return;
                }
            };
            for x in &pool.msgs {
                if set_leaf_big(&mut r, x.req.index, &x.req.rate_commitment()).is_err() {
                    vfail!(o, "cannot build the second verifier's tree");
                    return;
                }
            }
            if get_root_big(&r) != pool.root {
                vfail!(o, "the second verifier's tree root differs from the pool's");
                return;
            }
            *slot = Some(r);
        }
        let r = slot.as_ref().unwrap();
        let vi = verify_input(&g.msg, &g.signal);
        let (what, v) = match c.target {
            Target::Verify => ("verify", call_verify(r, &g.msg)),
            Target::VerifyRln => ("verify_rln_proof", call_verify_rln(r, &vi)),
            Target::VerifyRoots => ("verify_with_roots", call_verify_roots(r, &vi, &cr::enc_fr(&pool.root))),
        };
        o.nontrivial = true;
        if v.is_true() {
            vfail!(o, "{what} of a verifier holding another verification key (same tree, same process) accepted a message proven for the shipped key");
            return;
        }
        // and the shipped key's verifier still accepts it
        let v2 = call_verify_rln(&pool.rln, &vi);
        if !v2.is_true() {
            vfail!(o, "after the other verifier was asked, the shipped key's verifier no longer accepts the message: {v2:?}");
        }
    });
}

fn run(pool: &Pool, c: &Case, o: &mut Outcome) {
    if let Mutation::VerifierTree(ops) = &c.mutation {
        run_verifier_tree(pool, c, ops, o);
        return;
    }
    if matches!(c.mutation, Mutation::VerifierWithOtherKey) {
        run_other_key(pool, c, o);
        return;
    }
    let g = &pool.msgs[c.golden as usize % pool.msgs.len()];
    let (input, roots) = build(pool, c);
    let (what, v, acc) = match c.target {
        Target::Verify => ("verify", call_verify(&pool.rln, &input), acceptability(g, &input, Mode::Raw)),
        Target::VerifyRln => ("verify_rln_proof", call_verify_rln(&pool.rln, &input), acceptability(g, &input, Mode::Tree(&pool.root))),
        Target::VerifyRoots => ("verify_with_roots", call_verify_roots(&pool.rln, &input, &roots), acceptability(g, &input, Mode::Roots(&roots))),
    };
    if acc.acceptable() {
        o.label("still-acceptable");
    } else {
        let broken = [!acc.proof_and_values_identical, !acc.signal_binds, !acc.root_ok].iter().filter(|b| **b).count();
        o.label(format!("conditions-broken/{broken}"));
        if broken == 1 {
            o.nontrivial = true;
        }
    }
    if let Some(m) = judge(what, &v, &acc, false) {
        vfail!(o, "{m} [mutation {:?}]", c.mutation);
    }
}

impl Property for C02 {
    type Case = Case;
    fn id(&self) -> &'static str {
        "C02"
    }
    fn rule(&self) -> String {
        "a pool of accepted messages (C01's generator) x modifications of the decoded message: each of root / external nullifier / x / y / nullifier replaced by +1, -1, another field's value, 0, a random value or the same field of another accepted message; two fields swapped; any single bit of the 128 proof bytes flipped; the proof of another accepted message; signal byte flipped / appended / truncated / emptied / replaced, with and without adjusting the declared length; declared length extended over trailing bytes or changed only in its high bits (real length + m*2^k, k in 8..63); each public value re-encoded as v + k*p; the input cut right after the five values (no signal part), after the length field, one byte short or at a generated position; root sets without the root, with it at every position, with near-misses root±1, made only of distinguished values (zero entries, the empty tree's root, p-1, 1) with and without the real root, and empty; on verify / verify_rln_proof / verify_with_roots; the unmodified message shown to a second verifier in the same process holding the same tree and another verification key (the shipped key file with two public-input entries exchanged) — never accepted, and the first verifier still accepts it. Generated VerifierTree cases: up to 7 changes of the verifier's own tree after proving (writes/deletes at the sibling, neighbours, other members, overwriting/deleting/restoring the prover's leaf, restoring everything) with verify_rln_proof after every step: accepted exactly when the ideal tree's root equals the message's root. Fixed part: verifier tree changed after proving (set/delete other leaves, the prover's leaf) and restored. A quarter of the cases have every verification call made by a second long-lived thread of the caller (taking turns with the thread that proves and changes the tree). \
         non-trivial = a modification that breaks exactly one of the three conditions; distinct by case content".into()
    }
    fn assumptions(&self) -> Vec<String> {
        vec!["Groth16 soundness; random modification does not find a second valid proof or a Keccak collision".into()]
    }
    fn plan(&self, tier: Tier) -> Plan {
        Plan { shards: 16, cases_per_shard: tier.pick(1_500, 40_000), max_shrink_iters: 128, watchdog_s: tier.pick(1500, 10_800) }
    }
    fn selftest(&self, ctx: &Ctx) -> Result<(), String> {
        keccak_ref::selftest()?;
        poseidon_ref::selftest()?;
        pool(ctx).map(|_| ())
    }
    fn strategy(&self, _tier: Tier, _shard: usize) -> BoxedStrategy<Case> {
        let nv = prop_oneof![Just(NewVal::Plus1), Just(NewVal::Minus1), any::<u8>().prop_map(NewVal::OtherField), Just(NewVal::Zero), any::<u64>().prop_map(NewVal::Random), Just(NewVal::FromOtherMessage)];
        let mutation = prop_oneof![
            1 => Just(Mutation::None),
            8 => (0u8..5, nv).prop_map(|(f, n)| Mutation::Field(f, n)),
            2 => (0u8..5, any::<u8>()).prop_map(|(a, b)| Mutation::Swap(a, b)),
            4 => any::<u16>().prop_map(Mutation::ProofBit),
            1 => Just(Mutation::ProofFromOtherMessage),
            2 => (any::<u16>(), any::<bool>()).prop_map(|(pos, fix_len)| Mutation::SignalFlip { pos, fix_len }),
            2 => (any::<u8>(), any::<bool>()).prop_map(|(byte, fix_len)| Mutation::SignalAppend { byte, fix_len }),
            2 => any::<bool>().prop_map(|fix_len| Mutation::SignalTruncate { fix_len }),
            1 => Just(Mutation::SignalEmpty),
            1 => proptest::collection::vec(any::<u8>(), 0..40).prop_map(Mutation::SignalOther),
            1 => any::<u8>().prop_map(Mutation::DeclaredLenLongerWithTail),
            4 => (proptest::option::of(any::<u8>()), any::<u8>(), any::<bool>()).prop_map(|(with_root_at, others, near_miss)| Mutation::RootSet { with_root_at, others, near_miss }),
            2 => (0u8..4, any::<u8>(), any::<bool>()).prop_map(|(kind, count, with_root)| Mutation::RootSetSpecial { kind, count, with_root }),
            3 => (0u8..5, any::<u8>()).prop_map(|(f, k)| Mutation::FieldAlias(f, k)),
            2 => (0u8..6, any::<u8>()).prop_map(|(shift, m)| Mutation::DeclaredLenHighBits { shift, m }),
            2 => (0u8..4, any::<u16>()).prop_map(|(kind, sel)| Mutation::Cut { kind, sel }),
            1 => Just(Mutation::VerifierWithOtherKey),
            1 => proptest::collection::vec(prop_oneof![
                    4 => (any::<u16>(), 0u8..6).prop_map(|(s, v)| TOp::SetOther(s, v)),
                    2 => any::<u16>().prop_map(TOp::DeleteOther),
                    1 => (0u8..6).prop_map(TOp::OverwriteProver),
                    1 => Just(TOp::DeleteProver),
                    2 => Just(TOp::RestoreProver),
                    2 => Just(TOp::RestoreAll),
                ], 1..8).prop_map(Mutation::VerifierTree),
        ];
        let target = prop_oneof![1 => Just(Target::Verify), 3 => Just(Target::VerifyRln), 3 => Just(Target::VerifyRoots)];
        (any::<u8>(), target, mutation).prop_map(|(golden, target, mutation)| Case { golden, target, mutation }).boxed()
    }
    fn check(&self, ctx: &Ctx, c: &Case) -> Outcome {
        let mut o = Outcome::new();
        let pool = match pool(ctx) {
            Ok(p) => p,
            Err(e) => {
                vfail!(o, "message pool unavailable: {e}");
                return o;
            }
        };
        crate::gens::set_io_style((case_hash(c) % 4) as u8);
        o.label(format!("io-style/{}", crate::gens::io_style()));
        // a quarter of the cases: verification is done by a second long-lived thread of the caller
        let second = (case_hash(c) / 4) % 4 == 1;
        crate::pipeline::verify_on_second_thread(second);
        if second {
            o.label("verified-by-a-second-thread");
        }
        o.label(format!("target/{:?}", c.target));
        let m = format!("{:?}", c.mutation);
        o.label(format!("mutation/{}", m.split(|ch: char| !ch.is_alphanumeric()).next().unwrap_or("")));
        run(pool, c, &mut o);
        o
    }
    fn fixed_part(&self, ctx: &Ctx, stats: &mut Stats) -> Option<(String, Option<Case>)> {
        // (a) every single proof bit of the first message (1024 flips) on verify_rln_proof
        let pool = pool(ctx).ok()?;
        let bits = ctx.tier.pick(128usize, 1024usize);
        for k in 0..bits {
            let bit = k * (1024 / bits);
            let c = Case { golden: 0, target: Target::VerifyRln, mutation: Mutation::ProofBit(((bit * 65536) / 1024) as u16) };
            let mut o = Outcome::new();
            run(pool, &c, &mut o);
            stats.evaluations += 1;
            if let Some(m) = o.fail {
                return Some((m, Some(c)));
            }
        }
        *stats.labels.entry("fixed/proof-bit-sweep".into()).or_default() += bits as u64;
        // (b) verifier-side tree changes after proving, then restored: four canned sequences on every
        // pool message (the generated VerifierTree cases explore longer ones)
        let canned: Vec<Vec<TOp>> = vec![
            vec![TOp::SetOther(2, 5), TOp::RestoreAll],
            vec![TOp::SetOther(0, 4), TOp::DeleteOther(0), TOp::RestoreAll],
            vec![TOp::OverwriteProver(1), TOp::RestoreProver],
            vec![TOp::DeleteProver, TOp::RestoreProver, TOp::SetOther(1, 3), TOp::RestoreAll],
        ];
        for golden in 0..pool.msgs.len().min(4) as u8 {
            for ops in &canned {
                let c = Case { golden, target: Target::VerifyRln, mutation: Mutation::VerifierTree(ops.clone()) };
                let mut o = Outcome::new();
                run(pool, &c, &mut o);
                stats.evaluations += o.evals;
                if let Some(m) = o.fail {
                    return Some((m, Some(c)));
                }
            }
        }
        *stats.labels.entry("fixed/verifier-tree-changed-and-restored".into()).or_default() += 4;
        None
    }
    fn sample_view(&self, c: &Case) -> serde_json::Value {
        serde_json::json!({"golden": c.golden, "target": format!("{:?}", c.target), "mutation": truncate(&format!("{:?}", c.mutation), 160)})
    }
}
