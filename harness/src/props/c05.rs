//! C05 — the witness-graph evaluator computes the circuit's witness for every input.

use crate::engine::*;
use crate::gens;
use crate::models::field::{fr_to_big, half_p, p, Fx};
use crate::refwit::{self, RefOut};
use crate::rlnh::*;
use num_bigint::BigUint;
use proptest::prelude::*;
use serde::{Deserialize, Serialize};

pub struct C05;

#[derive(Clone, Debug, Serialize, Deserialize)]
pub struct Case {
    pub w: Wit,
    /// permutation seed for the order in which named inputs are supplied
    pub order: u16,
    /// what this thread evaluated just before (the result must not depend on it)
    pub pre: Option<Pre>,
}

/// a valid evaluation of a related assignment (same identity and path; x / external nullifier /
/// both changed), then `reps` rejected evaluations that carry this case's values plus one malformed
/// signal (wrong number of path elements / path indices, a missing signal)
#[derive(Clone, Copy, Debug, Serialize, Deserialize)]
pub struct Pre {
    pub change: u8,
    pub malformed: u8,
    pub reps: u8,
    /// first evaluate a same-length sibling of the graph file (one constant deep in the node section
    /// changed), then the graph itself — both as re-stored by zerokit's own serializer
    #[serde(default)]
    pub sibling_graph: bool,
    /// 1..=4: an evaluation handed a damaged graph file (its failure, error or panic, is contained)
    /// comes first; what it leaves behind must not reach the evaluations that follow
    #[serde(default)]
    pub damaged_graph: u8,
}

/// (re-stored bundled graph, same-length sibling with one constant changed)
pub fn restored_graphs() -> Result<&'static (Vec<u8>, Vec<u8>), String> {
    static G: std::sync::OnceLock<Result<(Vec<u8>, Vec<u8>), String>> = std::sync::OnceLock::new();
    G.get_or_init(|| {
        use rln::circuit::iden3calc::graph::Node;
        use rln::circuit::iden3calc::storage::{deserialize_witnesscalc_graph, serialize_witnesscalc_graph};
        let (nodes, signals, info) = deserialize_witnesscalc_graph(std::io::Cursor::new(graph_bytes())).map_err(|e| e.to_string())?;
        let mut g0 = vec![];
        serialize_witnesscalc_graph(&mut g0, &nodes, &signals, &info).map_err(|e| e.to_string())?;
        // a constant deep in the node list whose change alters the witness of a fixed valid assignment
        let probe = Wit {
            s: Fx::from_u64(5),
            limit: Fx::from_u64(100),
            mid: Fx::from_u64(3),
            path: (0..20).map(|i| Fx::from_u64(1000 + i)).collect(),
            bits: (0..20).map(|i| (i % 2) as u8).collect(),
            x: Fx::from_u64(77),
            e: Fx::from_u64(9),
        };
        let base = rln::circuit::calculate_rln_witness(named_inputs(&probe), &g0);
        let mut g1 = vec![];
        let mut k = 0;
        let mut sib = nodes.clone();
        for cand in (nodes.len() / 2..nodes.len()).rev() {
            if !matches!(nodes[cand], Node::MontConstant(_) | Node::Constant(_)) {
                continue;
            }
            sib = nodes.clone();
            match &mut sib[cand] {
                Node::MontConstant(f) => *f += ark_bn254::Fr::from(1u64),
                Node::Constant(u) => *u = *u + ruint::aliases::U256::from(1u64),
                _ => unreachable!(),
            }
            let mut bytes = vec![];
            serialize_witnesscalc_graph(&mut bytes, &sib, &signals, &info).map_err(|e| e.to_string())?;
            let w = rln::circuit::calculate_rln_witness(named_inputs(&probe), &bytes);
            if w != base {
                g1 = bytes;
                k = cand;
                break;
            }
        }
        if g1.is_empty() {
            return Err("altered copies of the graph file (one constant node changed, same length), each evaluated right after the graph itself, all returned the witness of the unaltered graph: the evaluator does not evaluate the graph it is given".into());
        }
        if std::env::var("VERIF_DEBUG").is_ok() {
            let d = (0..g0.len().min(g1.len())).find(|i| g0[*i] != g1[*i]);
            eprintln!("restored graphs: lengths {} / {}, first differing byte {:?}, node {k} of {}", g0.len(), g1.len(), d, sib.len());
        }
        Ok((g0, g1))
    })
    .as_ref()
    .map_err(|e| e.clone())
}

/// values at 64-bit limb boundaries, 2^16±1, near p and p/2, uniform
fn limb_value() -> BoxedStrategy<Fx> {
    prop_oneof![
        3 => (0usize..4, 0u8..3, any::<bool>()).prop_map(|(k, d, neg)| {
            let b = BigUint::from(1u32) << (64 * k);
            let v = if neg && k > 0 { b - BigUint::from(d) } else { b + BigUint::from(d) };
            Fx::from_big(&(v % p()))
        }),
        1 => (0u32..4).prop_map(|d| Fx::from_big(&(BigUint::from(65535u32 + d)))),
        2 => (1u64..70000).prop_map(|d| Fx::from_big(&(p() - BigUint::from(d)))),
        2 => (0u64..70000, any::<bool>()).prop_map(|(d, up)| if up { Fx::from_big(&(half_p() + BigUint::from(d))) } else { Fx::from_big(&(half_p() - BigUint::from(d))) }),
        4 => gens::fx(),
        4 => gens::fx_uniform(),
    ]
    .boxed()
}

/// (mid, limit): ~70% inside the circuit's range, the rest around its edges
fn mid_limit_wide() -> BoxedStrategy<(Fx, Fx)> {
    prop_oneof![
        7 => mid_limit(),
        // limit - mid == 2^16 (largest accepted difference), limit > 2^16
        1 => (0u64..65536).prop_map(|m| (Fx::from_u64(m), Fx::from_u64(m + 65536))),
        // just outside
        1 => (0u64..65536).prop_map(|m| (Fx::from_u64(m), Fx::from_u64(m + 65537))),
        1 => (0u64..65537).prop_map(|l| (Fx::from_u64(l), Fx::from_u64(l))),
        1 => (65536u64..70000, 1u64..1000).prop_map(|(m, d)| (Fx::from_u64(m), Fx::from_u64(m + d))),
        1 => (limb_value(), limb_value()),
    ]
    .boxed()
}

pub fn c05_wit() -> BoxedStrategy<Wit> {
    (limb_value(), mid_limit_wide(), proptest::collection::vec(limb_value(), 20), bits20(), limb_value(), limb_value())
        .prop_map(|(s, (mid, limit), path, bits, x, e)| Wit { s, limit, mid, path, bits, x, e })
        .boxed()
}

fn near_limb_or_edge(f: &Fx) -> bool {
    let b = f.big();
    let near = |x: &BigUint| {
        let d = if &b > x { &b - x } else { x - &b };
        d < BigUint::from(70000u32)
    };
    (1..4).any(|k| near(&(BigUint::from(1u32) << (64 * k)))) || near(p()) || near(half_p())
}

pub const WORKERS: usize = 8;

impl Property for C05 {
    type Case = Case;
    fn id(&self) -> &'static str {
        "C05"
    }
    fn rule(&self) -> String {
        "46-element input assignments (identitySecret, userMessageLimit, messageId, 20 path elements, 20 binary path indices, x, externalNullifier) with values at 64-bit limb boundaries 2^(64k)±{0,1,2}, 2^16±1, within 70000 of p and of p/2, boundary-weighted and uniform; messageId/limit ~70% inside the circuit's range plus its edges (difference exactly 2^16, 2^16+1, equal, messageId >= 2^16); \
         the complete 5844-element vector of zerokit's graph evaluator is compared (sha256 of the decimal rendering, full vector on mismatch) with the vector circom's own generated calculator (rln.wasm under node) computes; assignments the reference rejects are only counted; evaluation is repeated and the named inputs are supplied in a generated order; 40% of the cases are preceded, on the same thread, by a valid evaluation of a related assignment (x and/or external nullifier changed) and 0..11 rejected evaluations carrying the case's own values plus one malformed signal, a quarter of these also by an evaluation handed a damaged graph file (empty node record / cut in half / cut 3 bytes short / header only; its failure is contained) — the result must not depend on that history; a quarter of those cases evaluate a same-length sibling of the graph file (one constant deep in the node section changed) first and then the bundled graph as re-stored by zerokit's own serializer (half of these load both, one after the other, into one caller buffer: same address and length, other content). \
         non-trivial = accepted by the reference and some input on a limb boundary or within 70000 of p or p/2; distinct by case content".into()
    }
    fn level(&self) -> &'static str {
        "exploration"
    }
    fn assumptions(&self) -> Vec<String> {
        vec!["the frozen copies refwit/rln.wasm + witness_calculator.js (circom's generated witness calculator, sanity checks on) are the reference generator the property names; node 20 executes them correctly".into()]
    }
    fn plan(&self, tier: Tier) -> Plan {
        Plan { shards: WORKERS, cases_per_shard: tier.pick(800, 40_000), max_shrink_iters: 200, watchdog_s: tier.pick(900, 7200) }
    }
    fn selftest(&self, _ctx: &Ctx) -> Result<(), String> {
        let r = refwit::global(WORKERS)?;
        if r.n != 5844 {
            return Err(format!("reference generator reports {} signals", r.n));
        }
        Ok(())
    }
    fn strategy(&self, _tier: Tier, _shard: usize) -> BoxedStrategy<Case> {
        let pre = prop_oneof![
            3 => Just(None),
            2 => (1u8..4, 0u8..4, 0u8..16, prop_oneof![3 => Just(false), 1 => Just(true)]).prop_map(|(change, malformed, reps, sibling_graph)| Some(Pre { change, malformed, reps: reps % 12, sibling_graph, damaged_graph: if reps >= 12 { reps % 4 + 1 } else { 0 } })),
        ];
        (c05_wit(), any::<u16>(), pre).prop_map(|(w, order, pre)| Case { w, order, pre }).boxed()
    }
    fn check(&self, _ctx: &Ctx, c: &Case) -> Outcome {
        let mut o = Outcome::new();
        let r = match refwit::global(WORKERS) {
            Ok(r) => r,
            Err(e) => {
                vfail!(o, "reference generator unavailable: {e}");
                return o;
            }
        };
        // the shard's own worker: derive the slot from the thread id hash
        let slot = {
            use std::hash::{Hash, Hasher};
            let mut h = std::collections::hash_map::DefaultHasher::new();
            std::thread::current().id().hash(&mut h);
            h.finish() as usize
        };
        let refout = match r.eval(slot, &c.w, false) {
            Ok(x) => x,
            Err(e) => {
                vfail!(o, "reference generator failed: {e}");
                return o;
            }
        };
        let (n, sha, head) = match refout {
            RefOut::Reject(reason) => {
                o.label(format!("reference-rejects/{}", if reason.contains("RangeCheck") { "range-check" } else { "other" }));
                return o;
            }
            RefOut::Hash(n, sha, head) => (n, sha, head),
            RefOut::Full(_) => unreachable!(),
        };
        o.label("reference-accepts");
        let limb = [c.w.s, c.w.x, c.w.e, c.w.limit, c.w.mid].iter().chain(c.w.path.iter()).any(near_limb_or_edge);
        if limb {
            o.label("limb-boundary-or-near-p");
        }
        o.nontrivial = limb;
        if let Some(pre) = &c.pre {
            o.label("after-related-and-rejected-evaluations");
            let mut pw = c.w.clone();
            let one = Fx::from_u64(1);
            if pre.change & 1 != 0 {
                pw.x = Fx(pw.x.0 + one.0);
            }
            if pre.change & 2 != 0 {
                pw.e = Fx(pw.e.0 + one.0);
            }
            // (0) an evaluation handed a damaged graph file
            if pre.damaged_graph > 0 {
                o.label("after-a-damaged-graph-file");
                let g = damaged_graph(pre.damaged_graph - 1);
                let _ = guarded(|| rln::circuit::calculate_rln_witness(named_inputs(&c.w), &g));
            }
            // (1) a valid evaluation of the related assignment (its result is C05's business in its own case)
            let _ = guarded(|| rln::circuit::calculate_rln_witness(named_inputs(&pw), graph_bytes()));
            // (2) rejected evaluations carrying this case's values and one malformed signal
            for k in 0..pre.reps {
                let mut bad = named_inputs(&c.w);
                match pre.malformed % 4 {
                    0 => {
                        bad[3].1.pop();
                    }
                    1 => bad[4].1.push(ark_bn254::Fr::from(0u64)),
                    2 => {
                        bad.remove(5);
                    }
                    _ => {
                        bad[3].1.truncate(1);
                    }
                }
                let n = bad.len();
                bad.rotate_left(k as usize % n);
                match guarded(|| rln::circuit::try_calculate_rln_witness(bad, graph_bytes()).map(|_| ()).map_err(|e| e.to_string())) {
                    Ok(Ok(())) => o.label("malformed-assignment-accepted"),
                    Ok(Err(_)) => o.label("malformed-assignment-rejected"),
                    Err(_) => o.label("malformed-assignment-panicked"),
                }
            }
        }
        // evaluations of different shard threads interleave freely (shared lock); the sibling-graph
        // pair must be back to back process-wide, so it takes the lock exclusively — otherwise another
        // thread's evaluation of the bundled graph would always slip between the two
        static EXCL: std::sync::RwLock<()> = std::sync::RwLock::new(());
        let exclusive = c.pre.map(|p| p.sibling_graph).unwrap_or(false);
        let (_shared, _excl);
        if exclusive {
            _excl = Some(EXCL.write().unwrap_or_else(|e| e.into_inner()));
            _shared = None;
        } else {
            _shared = Some(EXCL.read().unwrap_or_else(|e| e.into_inner()));
            _excl = None;
        }
        // the graph file used for the compared evaluation: the bundled one, or (sibling_graph) the
        // bundled graph re-stored by zerokit's serializer, evaluated right after a same-length sibling
        let mut gbytes: &[u8] = graph_bytes();
        let mut reused = false;
        let mut reused_buf: Vec<u8> = vec![];
        if c.pre.map(|p| p.sibling_graph).unwrap_or(false) {
            match restored_graphs() {
                Ok((g0, g1)) => {
                    o.label(if g0.len() == g1.len() { "sibling-graph-first/same-length" } else { "sibling-graph-first" });
                    // first something unrelated (a one-node graph), so that nothing remembered from an
                    // earlier evaluation of the bundled graph stands between the sibling and the target
                    {
                        use rln::circuit::iden3calc::graph::Node;
                        let mut tiny = vec![];
                        let info: rln::circuit::iden3calc::InputSignalsInfo = Default::default();
                        let _ = rln::circuit::iden3calc::storage::serialize_witnesscalc_graph(&mut tiny, &vec![Node::MontConstant(ark_bn254::Fr::from(1u64))], &[0], &info);
                        let _ = guarded(|| rln::circuit::iden3calc::calc_witness(Vec::<(String, Vec<ark_bn254::Fr>)>::new(), &tiny));
                    }
                    let _ = guarded(|| rln::circuit::calculate_rln_witness(named_inputs(&c.w), g1));
                    // the target alternates between the re-stored graph and the bundled file itself
                    gbytes = if c.order & 1 == 0 { g0 } else { graph_bytes() };
                    // every other such case: the sibling and then the target are loaded into ONE caller
                    // buffer (a graph file re-read into the same allocation): same address, same length,
                    // other content
                    if c.order & 2 != 0 && g0.len() == g1.len() {
                        o.label("sibling-graph-first/same-buffer");
                        reused_buf.extend_from_slice(g1);
                        let _ = guarded(|| rln::circuit::calculate_rln_witness(named_inputs(&c.w), &reused_buf[..]));
                        reused_buf.copy_from_slice(g0);
                        reused = true;
                    }
                }
                Err(e) => {
                    vfail!(o, "{e}");
                    return o;
                }
            }
        }
        if reused {
            gbytes = &reused_buf[..];
        }
        // zerokit's evaluator, inputs in a generated order, evaluated twice
        let mut named = named_inputs(&c.w);
        let rot = c.order as usize % named.len();
        named.rotate_left(rot);
        if c.order & 0x8000 != 0 {
            named.reverse();
        }
        let first = match guarded(|| rln::circuit::calculate_rln_witness(named.clone(), gbytes)) {
            Ok(v) => v,
            Err(pn) => {
                vfail!(o, "graph evaluator panicked on an assignment the reference accepts: {}", pn.0);
                return o;
            }
        };
        let second = rln::circuit::calculate_rln_witness(named_inputs(&c.w), gbytes);
        if first != second {
            vfail!(o, "graph evaluation is not deterministic / depends on the order of the named inputs");
            return o;
        }
        let got: Vec<BigUint> = first.iter().map(fr_to_big).collect();
        o.evals = 3;
        if got.len() != n {
            vfail!(o, "graph evaluator returns {} signals, the reference {n}", got.len());
            return o;
        }
        if refwit::witness_sha256(&got) != sha || got[..head.len()] != head[..] {
            // locate the first difference with the full reference vector
            match r.eval(slot, &c.w, true) {
                Ok(RefOut::Full(full)) => {
                    let k = (0..n).find(|k| got[*k] != full[*k]).unwrap_or(0);
                    vfail!(o, "witness differs from the reference generator at signal {k}: zerokit {} vs reference {}", got[k], full[k]);
                }
                other => vfail!(o, "witness hash differs from the reference generator's (and the full vector could not be fetched: {other:?})"),
            }
        }
        o
    }
    fn sample_view(&self, c: &Case) -> serde_json::Value {
        serde_json::json!({"s": c.w.s, "limit": c.w.limit, "mid": c.w.mid, "x": c.w.x, "e": c.w.e, "path0": c.w.path[0], "path19": c.w.path[19], "bits": c.w.bits.iter().map(|b| b.to_string()).collect::<String>(), "order": c.order})
    }
}
