//! C07 — membership proofs are complete, binding and in the circuit's format.

use super::c15::op_any;
use super::trees::*;
use crate::engine::*;
use crate::models::field::fr_to_big;
use crate::models::tree_model::{hash2, TreeModel};
use ark_bn254::Fr;
use proptest::prelude::*;
use serde::{Deserialize, Serialize};

pub struct C07;

#[derive(Clone, Debug, Serialize, Deserialize)]
pub struct Case {
    pub tree: TreeCase,
    pub positions: Vec<Pos>,
    pub other_leaf: u8,
}

fn not_accepted(r: &Result<Result<bool, String>, Panicked>) -> Result<(), String> {
    match r {
        Ok(Ok(true)) => Err("accepted".into()),
        Ok(Ok(false)) | Ok(Err(_)) => Ok(()),
        Err(p) => Err(format!("panicked: {}", p.0)),
    }
}

/// proof of position i equals the ideal tree's path *now* (used after every step of the history, on
/// the same watched positions, so that anything remembered from an earlier query shows)
fn light_check(b: &dyn Backend, m: &TreeModel, i: usize) -> Result<u64, String> {
    let name = b.kind().name();
    let stored = m.get(i).unwrap();
    let (sibs, bits) = m.proof(i).unwrap();
    let obs = match b.proof_obs(i, &[stored]) {
        Ok(Ok(o)) => o,
        Ok(Err(e)) => return Err(format!("{name}: proof({i}) failed: {e}")),
        Err(p) => return Err(format!("{name}: proof({i}) panicked: {}", p.0)),
    };
    let v = &obs.view;
    if v.bits != bits || v.leaf_index != i {
        return Err(format!("{name}: proof({i}) has direction bits {:?} / leaf_index {}, expected {:?}", v.bits, v.leaf_index, bits));
    }
    if v.elements != sibs {
        let j = (0..m.depth.min(v.elements.len())).find(|j| v.elements[*j] != sibs[*j]);
        return Err(format!("{name}: proof({i}) differs from the ideal tree's path at level {j:?} (a path handed out earlier for this position?)"));
    }
    if let Some(r) = obs.roots.first() {
        if *r != m.root() {
            return Err(format!("{name}: proof({i}).compute_root_from(stored leaf) is not the current root"));
        }
    }
    Ok(1)
}

/// all proof checks for one position on one backend; returns number of evaluations
fn check_position(b: &dyn Backend, m: &TreeModel, i: usize, other: Fr, o: &mut Outcome) -> Result<u64, String> {
    let name = b.kind().name();
    let stored = m.get(i).unwrap();
    let other = if other == stored { other + Fr::from(1u64) } else { other };
    let (sibs, bits) = m.proof(i).unwrap();
    let root = m.root();
    let obs = match b.proof_obs(i, &[stored, other]) {
        Ok(Ok(o)) => o,
        Ok(Err(e)) => return Err(format!("{name}: proof({i}) failed: {e}")),
        Err(p) => return Err(format!("{name}: proof({i}) panicked: {}", p.0)),
    };
    let mut n = 1u64;
    let v = &obs.view;
    if v.length != m.depth || v.elements.len() != m.depth || v.bits.len() != m.depth {
        return Err(format!("{name}: proof({i}) has length {} / {} elements / {} bits, depth is {}", v.length, v.elements.len(), v.bits.len(), m.depth));
    }
    if v.leaf_index != i {
        return Err(format!("{name}: proof({i}).leaf_index() = {}", v.leaf_index));
    }
    if v.bits != bits {
        return Err(format!("{name}: proof({i}) direction bits {:?}, expected binary digits LSB first {:?}", v.bits, bits));
    }
    if v.elements != sibs {
        let j = (0..m.depth).find(|j| v.elements[*j] != sibs[*j]).unwrap();
        return Err(format!("{name}: proof({i}) sibling at level {j} = {}, ideal tree has {}", fr_to_big(&v.elements[j]), fr_to_big(&sibs[j])));
    }
    if b.kind() == BackendKind::RlnApi {
        return Ok(n);
    }
    // completeness
    if obs.roots[0] != root {
        return Err(format!("{name}: proof({i}).compute_root_from(stored leaf) = {} but the root is {}", fr_to_big(&obs.roots[0]), fr_to_big(&root)));
    }
    if b.root() != root {
        return Err(format!("{name}: root() differs from the ideal root"));
    }
    match &obs.verdicts[0] {
        Some(Ok(true)) => {}
        other => return Err(format!("{name}: verify(stored leaf, proof({i})) = {other:?}, expected acceptance")),
    }
    // binding: a different leaf value never recomputes the root
    if obs.roots[1] == root {
        return Err(format!("{name}: proof({i}) recomputes the root from a different leaf value"));
    }
    if let Some(Ok(true)) = &obs.verdicts[1] {
        return Err(format!("{name}: verify(different leaf, proof({i})) accepted"));
    }
    n += 3;
    // alterations
    let parts: Vec<(Fr, u8)> = sibs.iter().copied().zip(bits.iter().copied()).collect();
    // nodes on the path, bottom-up: path_nodes[j] = node at level j below the sibling j
    let mut path_nodes = vec![stored];
    for j in 0..m.depth {
        let cur = path_nodes[j];
        let nxt = if bits[j] == 0 { hash2(&cur, &sibs[j]) } else { hash2(&sibs[j], &cur) };
        path_nodes.push(nxt);
    }
    for j in 0..m.depth {
        if j >= 1 {
            o.label("alteration-at-level>=1");
        }
        // sibling value altered
        for (what, newv) in [("+1", sibs[j] + Fr::from(1u64)), ("node-itself", path_nodes[j]), ("zero", Fr::from(0u64))] {
            if newv == sibs[j] {
                continue;
            }
            let mut alt = parts.clone();
            alt[j].0 = newv;
            if let Some(r) = b.verify_parts(&stored, &alt) {
                n += 1;
                if let Err(e) = not_accepted(&r) {
                    return Err(format!("{name}: proof({i}) with sibling at level {j} altered ({what}) is {e}"));
                }
            }
        }
        // direction bit flipped
        let mut alt = parts.clone();
        alt[j].1 ^= 1;
        if let Some(r) = b.verify_parts(&stored, &alt) {
            n += 1;
            if path_nodes[j] != sibs[j] {
                if let Err(e) = not_accepted(&r) {
                    return Err(format!("{name}: proof({i}) with direction bit at level {j} flipped (children differ) is {e}"));
                }
            } else {
                o.label("bit-flip-with-equal-children");
                if let Err(p) = &r {
                    return Err(format!("{name}: verify panicked: {}", p.0));
                }
            }
        }
    }
    // the unaltered parts, re-assembled, are accepted (sanity of the constructor path)
    if let Some(r) = b.verify_parts(&stored, &parts) {
        n += 1;
        if !matches!(r, Ok(Ok(true))) {
            return Err(format!("{name}: re-assembled genuine proof({i}) is not accepted: {r:?}"));
        }
    }
    Ok(n)
}

impl Property for C07 {
    type Case = Case;
    fn id(&self) -> &'static str {
        "C07"
    }
    fn rule(&self) -> String {
        "a reachable tree state (history of up to 20 generated operations incl. deletes, range writes and batches) x positions (all positions for depth<=5, else generated positions incl. 0, cap-1, mark, cap/2±1 and uniform) x alterations (every level: sibling +1 / replaced by the path node / zeroed; direction bit flipped); per backend: length, leaf_index, LSB-first bits and siblings equal the ideal tree's, compute_root_from(stored leaf) = root, verify accepts, a different leaf never recomputes the root, every sibling alteration and every bit flip at a level whose children differ is not accepted; RLN::get_proof bytes are decoded with the independent codec; up to four watched positions are additionally queried after every step of the history and compared with the ideal tree's current path. \
         non-trivial = state reached through a delete or a batch/range write, or a position >= cap/2; distinct by case content".into()
    }
    fn assumptions(&self) -> Vec<String> {
        vec!["collision resistance of the pair hash (an altered sibling is assumed to change the recomputed root)".into()]
    }
    fn plan(&self, tier: Tier) -> Plan {
        Plan { shards: 16, cases_per_shard: tier.pick(150, 4_000), max_shrink_iters: 2048, watchdog_s: tier.pick(900, 7200) }
    }
    fn strategy(&self, tier: Tier, _shard: usize) -> BoxedStrategy<Case> {
        use BackendKind::*;
        let backends = prop_oneof![
            4 => Just(vec![Full, Optimal]),
            3 => Just(vec![Full, Optimal, Pm]),
            2 => Just(vec![Pm, RlnApi]),
        ];
        (
            depth_strategy(tier),
            backends,
            proptest::collection::vec(op_any(), 0..20),
            proptest::collection::vec(pos_in_range(), 1..8),
            0u8..POOL as u8,
        )
            .prop_map(|(depth, backends, ops, positions, other_leaf)| {
                let backends = if depth == 20 { vec![Optimal, Pm, RlnApi] } else { backends };
                let mut ops = ops;
                tame_for_depth20(depth, &mut ops);
                Case { tree: TreeCase { depth, backends, ops }, positions, other_leaf }
            })
            .boxed()
    }
    fn check(&self, ctx: &Ctx, case: &Case) -> Outcome {
        let mut o = Outcome::new();
        let depth = case.tree.depth;
        o.label(format!("depth/{depth}"));
        let has = |f: fn(&Op) -> bool| case.tree.ops.iter().any(f);
        let shaped = has(|x| matches!(x, Op::Delete(_) | Op::Batch(..) | Op::SetRange(..)));
        if shaped {
            o.label("state-via-delete-or-batch");
        }
        let mut high = false;
        for kind in &case.tree.backends {
            o.label(format!("backend/{}", kind.name()));
            let mut b = make_backend(*kind, depth);
            let mut m = TreeModel::new(depth, Fr::from(0u64));
            for (k, op) in case.tree.ops.iter().enumerate() {
                match step(ctx, b.as_mut(), &mut m, op, Focus::STATE, false) {
                    Ok(rep) => {
                        for s in rep.skipped_known {
                            o.exclude(s);
                        }
                    }
                    Err(e) => {
                        vfail!(o, "state not reachable as specified, depth {depth} step {k}: {e}");
                        return o;
                    }
                }
                // the watched positions are queried after every step (same positions each time)
                let (cap, mark) = (m.cap(), m.mark);
                for p in case.positions.iter().take(4) {
                    let i = p.resolve(cap, mark.min(cap - 1)).min(cap - 1);
                    match light_check(b.as_ref(), &m, i) {
                        Ok(n) => o.evals += n,
                        Err(e) => {
                            vfail!(o, "depth {depth}, after step {k} ({}): {e}", op.resolve(&m).kind());
                            return o;
                        }
                    }
                }
                o.label("path-queried-after-every-step");
            }
            let cap = m.cap();
            let mut positions: Vec<usize> = if depth <= 5 { (0..cap).collect() } else { vec![0, cap - 1, cap / 2, cap / 2 - 1] };
            for p in &case.positions {
                let i = p.resolve(cap, m.mark);
                if i < cap {
                    positions.push(i);
                }
            }
            positions.sort();
            positions.dedup();
            for i in positions {
                if i >= cap / 2 {
                    high = true;
                }
                match check_position(b.as_ref(), &m, i, pool_value(case.other_leaf), &mut o) {
                    Ok(n) => o.evals += n,
                    Err(e) => {
                        vfail!(o, "depth {depth}, state after {} operations: {e}", case.tree.ops.len());
                        return o;
                    }
                }
            }
        }
        // membership paths of a persistent tree that was closed and reopened (in-memory bookkeeping is
        // rebuilt from disk): every third case with the persistent backend, reopen steps honoured
        if !o.failed() && case.tree.backends.contains(&BackendKind::Pm) && case_hash(case) % 3 == 0 && depth <= 10 {
            o.label("persistent-with-reopen");
            let base = ctx.tmpdir.join(format!("c07-{:016x}-{:?}", case_hash(case), std::thread::current().id()));
            let _ = std::fs::remove_dir_all(&base);
            let c16case = super::c16::Case {
                depth,
                cfg: super::c16::StoreCfg { cache: 0, flush_ms: 0, low_space: false, compression: false, path_style: 0 },
                api: super::c16::Api::Trait,
                ops: vec![],
                mode: super::c16::Mode::NoFault,
            };
            let mut st = super::c16::Store::new(&c16case, &base);
            if let Ok(Ok(())) = st.open() {
                let mut m = TreeModel::new(depth, Fr::from(0u64));
                let mut ops: Vec<Op> = case.tree.ops.clone();
                // make sure there is a reopen after the state was built
                ops.push(Op::Reopen);
                let mut err: Option<String> = None;
                for (k, op) in ops.iter().enumerate() {
                    if matches!(op, Op::Reopen) {
                        let ok = matches!(st.bm().apply(&ROp::Flush), Some(Ok(Ok(()))));
                        st.close();
                        if !ok || !matches!(st.open(), Ok(Ok(()))) {
                            err = Some(format!("flush + reopen at step {k} failed"));
                            break;
                        }
                    } else {
                        match step(ctx, st.bm(), &mut m, op, Focus::STATE, false) {
                            Ok(rep) => {
                                for s in rep.skipped_known {
                                    o.exclude(s);
                                }
                            }
                            Err(e) => {
                                err = Some(format!("step {k}: {e}"));
                                break;
                            }
                        }
                    }
                    let (cap, mark) = (m.cap(), m.mark);
                    for p in case.positions.iter().take(4) {
                        let i = p.resolve(cap, mark.min(cap - 1)).min(cap - 1);
                        match light_check(st.bm(), &m, i) {
                            Ok(n) => o.evals += n,
                            Err(e) => {
                                err = Some(format!("after step {k}{}: {e}", if matches!(op, Op::Reopen) { " (reopen)" } else { "" }));
                                break;
                            }
                        }
                    }
                    if err.is_some() {
                        break;
                    }
                }
                if err.is_none() {
                    let cap = m.cap();
                    let positions: Vec<usize> = if depth <= 5 { (0..cap).collect() } else { vec![0, cap - 1, cap / 2, cap / 2 - 1] };
                    for i in positions {
                        if let Err(e) = check_position(st.bm(), &m, i, pool_value(case.other_leaf), &mut o) {
                            err = Some(format!("after the final reopen: {e}"));
                            break;
                        }
                    }
                }
                if let Some(e) = err {
                    vfail!(o, "persistent tree with reopen, depth {depth}: {e}");
                }
            }
            st.close();
            let _ = std::fs::remove_dir_all(&base);
        }
        if high {
            o.label("position>=cap/2");
        }
        o.nontrivial = shaped || high;
        o
    }
    fn sample_view(&self, case: &Case) -> serde_json::Value {
        let mut v = super::c06::C06.sample_view(&case.tree);
        v["positions"] = serde_json::to_value(&case.positions).unwrap();
        v
    }
}
