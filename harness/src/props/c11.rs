//! C11 — the C FFI is behaviourally identical to the Rust API.
//!
//! Two instances in lockstep from one generated call history: A is driven only through
//! `rln::ffi::*` (the `extern "C"` functions, called in-process with real `Buffer`s and raw
//! pointers), B only through `rln::public::RLN`. Per call: success flag == `is_ok()`, output buffer
//! bytes == the bytes the Rust API writes, verdicts equal, a failing call leaves the out-parameters
//! untouched; after every call the observable tree state (root, leaf count, leaves, metadata) of A
//! — read through the FFI — equals B's — read through the Rust API.

use super::trees::{pool_value, Pos, PosKind, POOL};
use crate::engine::*;
use crate::gens::{self, Bytes};
use crate::models::codec_ref as cr;
use crate::models::field::{fr_to_big, fr_to_le32};
use crate::pipeline::{self, Req};
use ark_bn254::Fr;
use num_bigint::BigUint;
use proptest::prelude::*;
use rln::ffi as f;
use rln::ffi::Buffer;
use rln::public::RLN;
use serde::{Deserialize, Serialize};
use std::io::Cursor;
use std::sync::OnceLock;

pub struct C11;

// ---------------------------------------------------------------------------------------------
// call descriptions
// ---------------------------------------------------------------------------------------------

#[derive(Clone, Debug, Serialize, Deserialize, PartialEq, Eq)]
pub enum LeafBuf {
    Valid(u8),
    /// canonical value followed by extra bytes
    Long(u8, Vec<u8>),
    Raw(Vec<u8>),
}

#[derive(Clone, Debug, Serialize, Deserialize, PartialEq, Eq)]
pub enum VecBuf {
    Valid(Vec<u8>),
    /// declared length differs from the payload
    BadLen(Vec<u8>, i8),
    Truncated(Vec<u8>, u8),
    Raw(Vec<u8>),
}

#[derive(Clone, Debug, Serialize, Deserialize, PartialEq, Eq)]
pub enum IdxBuf {
    Valid(Vec<u8>),
    BadLen(Vec<u8>, i8),
    Raw(Vec<u8>),
}

#[derive(Clone, Debug, Serialize, Deserialize, PartialEq, Eq)]
pub enum MsgBuf {
    /// golden message k (with its signal where the entry point wants one)
    Golden(u8),
    /// golden message with one byte xored
    Mutated(u8, u16, u8),
    Truncated(u8, u16),
    /// golden message with another signal
    OtherSignal(u8, Vec<u8>),
    Raw(Vec<u8>),
}

#[derive(Clone, Debug, Serialize, Deserialize, PartialEq, Eq)]
pub enum RootsBuf {
    Empty,
    /// the golden root at position `at` among `n` other roots
    With(u8, u8),
    Without(u8),
    Raw(Vec<u8>),
}

#[derive(Clone, Debug, Serialize, Deserialize, PartialEq, Eq)]
pub enum Call {
    SetLeaf(Pos, LeafBuf),
    DeleteLeaf(Pos),
    SetNextLeaf(LeafBuf),
    SetLeavesFrom(Pos, VecBuf),
    InitTreeWithLeaves(VecBuf),
    AtomicOperation(Pos, VecBuf, IdxBuf),
    SeqAtomicOperation(VecBuf, IdxBuf),
    SetTree(u8),
    SetMetadata(Vec<u8>),
    Flush,
    GetLeaf(Pos),
    GetRoot,
    GetProof(Pos),
    LeavesSet,
    GetMetadata,
    KeyGen,
    ExtendedKeyGen,
    SeededKeyGen(Bytes),
    SeededExtendedKeyGen(Bytes),
    Hash(Bytes),
    PoseidonHash(VecBuf),
    Verify(MsgBuf),
    VerifyRlnProof(MsgBuf),
    VerifyWithRoots(MsgBuf, RootsBuf),
    RecoverIdSecret(MsgBuf, MsgBuf),
    /// depth 20 only: place request k's rate commitment at its index
    Register(u8),
    GenerateRlnProof(u8, bool),
    GenerateRlnProofWithWitness(u8, bool),
    Prove(u8),
    /// re-create both instances through `new` with this configuration text
    New(NewCfg),
}

#[derive(Clone, Debug, Serialize, Deserialize, PartialEq, Eq)]
pub enum NewCfg {
    Empty,
    Garbage(Vec<u8>),
    NotJson,
    /// new_with_params with the bundled key / graph (valid) or corrupted graph bytes
    WithParams(bool),
    /// a non-temporary tree at a location of its own (each surface gets its own directory); through
    /// `new` ({"tree_config": {...}}) or `new_with_params` (the bare tree configuration)
    Persistent { with_params: bool },
    /// "temporary": true on a path that already exists: refused by the configuration parser
    TemporaryOnExistingPath { with_params: bool },
    /// drop both instances and construct them again with the configuration used last
    Reopen,
}

#[derive(Clone, Debug, Serialize, Deserialize)]
pub struct Case {
    pub depth: usize,
    pub calls: Vec<Call>,
    /// which of the caller's threads makes the FFI calls / reads the state through the FFI
    /// (0 = everything on one thread; see `thread_plan`)
    #[serde(default)]
    pub caller: u8,
}

// ---------------------------------------------------------------------------------------------
// golden data (one pool per process; proofs are expensive)
// ---------------------------------------------------------------------------------------------

pub struct Gold {
    pub pool: pipeline::Pool,
    /// two more messages of msgs[0]'s identity / epoch / message id with other signals
    pub twins: Vec<pipeline::Golden>,
    /// requests usable by Register / GenerateRlnProof in depth-20 histories
    pub reqs: Vec<Req>,
}

static GOLD: OnceLock<Result<Gold, String>> = OnceLock::new();

fn gold() -> Result<&'static Gold, String> {
    GOLD.get_or_init(|| {
        let mut pool = pipeline::build_pool(11, 2, "c11-pool")?;
        let mut twins = vec![];
        for sig in [b"twin signal one".to_vec(), vec![]] {
            let mut r = pool.msgs[0].req.clone();
            r.signal = Bytes::Lit(sig.clone());
            let mut out = vec![];
            pool.rln.generate_rln_proof(Cursor::new(r.encode()), &mut out).map_err(|e| e.to_string())?;
            let values = crate::rlnh::values_from_bytes(&out[128..])?;
            twins.push(pipeline::Golden { req: r, signal: sig, msg: out, values });
        }
        let reqs = pipeline::draw(&pipeline::req_strategy(300), 12, "c11-reqs", 4);
        let _ = &mut pool;
        Ok(Gold { pool, twins, reqs })
    })
    .as_ref()
    .map_err(|e| e.clone())
}

fn golden(k: u8) -> &'static pipeline::Golden {
    let g = gold().unwrap();
    let n = g.pool.msgs.len() + g.twins.len();
    let i = k as usize % n;
    if i < g.pool.msgs.len() {
        &g.pool.msgs[i]
    } else {
        &g.twins[i - g.pool.msgs.len()]
    }
}

// ---------------------------------------------------------------------------------------------
// argument materialisation
// ---------------------------------------------------------------------------------------------

fn leaf_bytes(l: &LeafBuf) -> Vec<u8> {
    match l {
        LeafBuf::Valid(i) => fr_to_le32(&pool_value(*i)).to_vec(),
        LeafBuf::Long(i, extra) => {
            let mut v = fr_to_le32(&pool_value(*i)).to_vec();
            v.extend_from_slice(extra);
            v
        }
        LeafBuf::Raw(b) => b.clone(),
    }
}

fn vec_bytes(v: &VecBuf) -> Vec<u8> {
    let enc = |idx: &Vec<u8>| cr::enc_vec_fr(&idx.iter().map(|i| fr_to_big(&pool_value(*i))).collect::<Vec<BigUint>>());
    match v {
        VecBuf::Valid(idx) => enc(idx),
        VecBuf::BadLen(idx, d) => {
            let mut b = enc(idx);
            let n = (idx.len() as i64 + *d as i64).max(0) as u64;
            b[..8].copy_from_slice(&n.to_le_bytes());
            b
        }
        VecBuf::Truncated(idx, cut) => {
            let b = enc(idx);
            let keep = b.len().saturating_sub(1 + *cut as usize);
            b[..keep].to_vec()
        }
        VecBuf::Raw(b) => b.clone(),
    }
}

fn idx_bytes(v: &IdxBuf) -> Vec<u8> {
    match v {
        IdxBuf::Valid(i) => cr::enc_vec_u8(i),
        IdxBuf::BadLen(i, d) => {
            let mut b = cr::enc_vec_u8(i);
            let n = (i.len() as i64 + *d as i64).max(0) as u64;
            b[..8].copy_from_slice(&n.to_le_bytes());
            b
        }
        IdxBuf::Raw(b) => b.clone(),
    }
}

fn msg_bytes(m: &MsgBuf, with_signal: bool) -> Vec<u8> {
    let full = |k: u8| {
        let g = golden(k);
        if with_signal {
            cr::enc_verify_input(&g.msg, &g.signal)
        } else {
            g.msg.clone()
        }
    };
    match m {
        MsgBuf::Golden(k) => full(*k),
        MsgBuf::Mutated(k, at, x) => {
            let mut b = full(*k);
            let i = pick_index(*at, b.len());
            b[i] ^= (*x).max(1);
            b
        }
        MsgBuf::Truncated(k, at) => {
            let b = full(*k);
            let n = pick_index(*at, b.len());
            b[..n].to_vec()
        }
        MsgBuf::OtherSignal(k, s) => {
            let g = golden(*k);
            if with_signal {
                cr::enc_verify_input(&g.msg, s)
            } else {
                g.msg.clone()
            }
        }
        MsgBuf::Raw(b) => b.clone(),
    }
}

fn roots_bytes(r: &RootsBuf) -> Vec<u8> {
    let root = &gold().unwrap().pool.root;
    let other = |i: u8| cr::enc_fr(&BigUint::from(1000u32 + i as u32));
    match r {
        RootsBuf::Empty => vec![],
        RootsBuf::With(n, at) => {
            let n = (*n % 4) as usize;
            let at = (*at as usize) % (n + 1);
            let mut b = vec![];
            for i in 0..=n {
                if i == at {
                    b.extend(cr::enc_fr(root));
                } else {
                    b.extend(other(i as u8));
                }
            }
            b
        }
        RootsBuf::Without(n) => (0..(*n % 4) + 1).flat_map(other).collect(),
        RootsBuf::Raw(b) => b.clone(),
    }
}

// ---------------------------------------------------------------------------------------------
// the two surfaces
// ---------------------------------------------------------------------------------------------

#[derive(Debug, Clone, PartialEq, Eq)]
pub enum Out {
    Unit,
    Bytes(Vec<u8>),
    Bool(bool),
    Usize(usize),
}

fn hex(b: &[u8]) -> String {
    let mut s = String::new();
    for x in b.iter().take(80) {
        s.push_str(&format!("{x:02x}"));
    }
    if b.len() > 80 {
        s.push('…');
    }
    format!("[{} bytes] {s}", b.len())
}

static SENTINEL: [u8; 1] = [0x5a];
const SENT_LEN: usize = 0xABCD;

fn buf(b: &[u8]) -> Buffer {
    Buffer { ptr: b.as_ptr(), len: b.len() }
}

struct FfiRes {
    flag: bool,
    out: Out,
    /// the out-parameters still hold what they held before the call
    untouched: bool,
}

thread_local! {
    /// the most recent non-empty output buffers the FFI handed out on this thread (address, length,
    /// bytes at that time): the FFI passes ownership of its output to the caller, so a later call
    /// must not change what an earlier buffer designates
    static PREV_OUT: std::cell::RefCell<std::collections::VecDeque<(usize, usize, Vec<u8>)>> = const { std::cell::RefCell::new(std::collections::VecDeque::new()) };
    static PREV_OUT_BROKEN: std::cell::RefCell<Option<String>> = const { std::cell::RefCell::new(None) };
}

fn with_out(g: impl FnOnce(*mut Buffer) -> bool) -> FfiRes {
    let mut ob = Buffer { ptr: SENTINEL.as_ptr(), len: SENT_LEN };
    let flag = g(&mut ob as *mut Buffer);
    // an earlier output must still read the same after this call
    PREV_OUT.with(|p| {
        for (addr, len, bytes) in p.borrow().iter() {
            let now = unsafe { std::slice::from_raw_parts(*addr as *const u8, *len) };
            if now != &bytes[..] {
                PREV_OUT_BROKEN.with(|b| *b.borrow_mut() = Some(format!("an output buffer handed out by an earlier FFI call ({} bytes at {:#x}) reads differently after this call", len, addr)));
                break;
            }
        }
    });
    let untouched = ob.ptr == SENTINEL.as_ptr() && ob.len == SENT_LEN;
    if flag {
        if untouched {
            return FfiRes { flag, out: Out::Bytes(b"<output buffer not written>".to_vec()), untouched };
        }
        // pointer and length must designate readable bytes
        let bytes = if ob.len == 0 { vec![] } else { unsafe { std::slice::from_raw_parts(ob.ptr, ob.len) }.to_vec() };
        if ob.len > 0 {
            // the last 48 outputs of this thread are remembered (one state observation alone produces a dozen)
            PREV_OUT.with(|p| {
                let mut q = p.borrow_mut();
                if q.len() >= 48 {
                    q.pop_front();
                }
                q.push_back((ob.ptr as usize, ob.len, bytes.clone()));
            });
        }
        FfiRes { flag, out: Out::Bytes(bytes), untouched }
    } else {
        FfiRes { flag, out: Out::Unit, untouched }
    }
}

/// a call whose single input Buffer struct is also handed in as the output struct (a C caller
/// overwriting its argument in place)
fn with_out_in_place(input: &[u8], g: impl FnOnce(*const Buffer, *mut Buffer) -> bool) -> FfiRes {
    let mut io = Buffer { ptr: input.as_ptr(), len: input.len() };
    let p = &mut io as *mut Buffer;
    let flag = g(p as *const Buffer, p);
    let untouched = io.ptr == input.as_ptr() && io.len == input.len();
    if flag {
        if untouched && !input.is_empty() {
            // still designating the input: the output was not written
            return FfiRes { flag, out: Out::Bytes(b"<output buffer not written (in-place call)>".to_vec()), untouched };
        }
        let bytes = if io.len == 0 { vec![] } else { unsafe { std::slice::from_raw_parts(io.ptr, io.len) }.to_vec() };
        FfiRes { flag, out: Out::Bytes(bytes), untouched }
    } else {
        FfiRes { flag, out: Out::Unit, untouched }
    }
}

thread_local! {
    /// whether the next eligible call is made in place (set per step by the interpreter)
    static IN_PLACE: std::cell::Cell<bool> = const { std::cell::Cell::new(false) };
}

fn with_bool(g: impl Fn(*mut bool) -> bool) -> FfiRes {
    let mut v = false;
    let flag = g(&mut v as *mut bool);
    if flag {
        // the verdict must not depend on what the out-parameter held before
        let mut v2 = true;
        let flag2 = g(&mut v2 as *mut bool);
        if !flag2 || v2 != v {
            return FfiRes { flag, out: Out::Bytes(format!("verdict depends on the previous content of the out-parameter: {v} / {flag2}:{v2}").into_bytes()), untouched: false };
        }
        FfiRes { flag, out: Out::Bool(v), untouched: false }
    } else {
        let mut v2 = true;
        let flag2 = g(&mut v2 as *mut bool);
        FfiRes { flag: flag || flag2, out: Out::Unit, untouched: !v && v2 }
    }
}

fn unit(flag: bool) -> FfiRes {
    FfiRes { flag, out: Out::Unit, untouched: true }
}

pub struct Pair {
    pub a: *mut RLN,
    pub b: Option<RLN>,
    pub depth: usize,
    /// the configuration the current instances were constructed with (None = "{}")
    pub last: Option<NewCfg>,
}

/// configuration text for one side; `wrapped` = the {"tree_config": ..} document `new` expects
fn tree_cfg_text(cfg: &NewCfg, side: &std::path::Path, wrapped: bool) -> Vec<u8> {
    let inner = match cfg {
        NewCfg::Persistent { .. } => serde_json::json!({"path": side.join("persist").to_string_lossy(), "temporary": false}),
        NewCfg::TemporaryOnExistingPath { .. } => {
            let p = side.join("exists");
            let _ = std::fs::create_dir_all(&p);
            serde_json::json!({"path": p.to_string_lossy(), "temporary": true})
        }
        _ => serde_json::json!({}),
    };
    if wrapped {
        serde_json::json!({"tree_config": inner}).to_string().into_bytes()
    } else {
        inner.to_string().into_bytes()
    }
}

/// construct one instance on each surface from the same kind of configuration
fn construct_both(cfg: &NewCfg, depth: usize, base: &std::path::Path) -> Result<(Result<RLN, String>, bool, *mut RLN), Panicked> {
    let with_params = matches!(cfg, NewCfg::Persistent { with_params: true } | NewCfg::TemporaryOnExistingPath { with_params: true });
    let (ta, tb) = (tree_cfg_text(cfg, &base.join("a"), !with_params), tree_cfg_text(cfg, &base.join("b"), !with_params));
    let mut ctx: *mut RLN = std::ptr::null_mut();
    if with_params {
        let zkey = rln::circuit::ZKEY_BYTES.to_vec();
        let graph = rln::circuit::graph_from_folder().to_vec();
        let rb = guarded(|| RLN::new_with_params(depth, zkey.clone(), graph.clone(), Cursor::new(tb.clone())).map_err(|e| e.to_string()))?;
        let flag = f::new_with_params(depth, &buf(&zkey), &buf(&graph), &buf(&ta), &mut ctx as *mut *mut RLN);
        Ok((rb, flag, ctx))
    } else {
        let rb = rust_new(depth, &tb)?;
        let (flag, c) = ffi_new(depth, &ta);
        Ok((rb, flag, c))
    }
}

impl Drop for Pair {
    fn drop(&mut self) {
        if !self.a.is_null() {
            unsafe { drop(Box::from_raw(self.a)) };
            self.a = std::ptr::null_mut();
        }
    }
}

fn rust_new(depth: usize, cfg: &[u8]) -> Result<Result<RLN, String>, Panicked> {
    guarded(|| RLN::new(depth, Cursor::new(cfg.to_vec())).map_err(|e| e.to_string()))
}

fn ffi_new(depth: usize, cfg: &[u8]) -> (bool, *mut RLN) {
    let mut ctx: *mut RLN = std::ptr::null_mut();
    let flag = f::new(depth, &buf(cfg), &mut ctx as *mut *mut RLN);
    (flag, ctx)
}

fn cap(depth: usize) -> usize {
    1usize << depth
}

fn wbytes<E: std::fmt::Display>(r: Result<(), E>, out: Vec<u8>) -> Result<Out, String> {
    r.map(|_| Out::Bytes(out)).map_err(|e| e.to_string())
}

struct Args {
    a: Vec<u8>,
    b: Vec<u8>,
    i: usize,
}

/// what the Rust API does
fn rust_call(r: &mut RLN, c: &Call, x: &Args) -> Result<Out, String> {
    let es = |e: color_eyre::Report| e.to_string();
    let mut out = vec![];
    match c {
        Call::SetLeaf(..) | Call::Register(_) => r.set_leaf(x.i, Cursor::new(x.a.clone())).map(|_| Out::Unit).map_err(es),
        Call::DeleteLeaf(_) => r.delete_leaf(x.i).map(|_| Out::Unit).map_err(es),
        Call::SetNextLeaf(_) => r.set_next_leaf(Cursor::new(x.a.clone())).map(|_| Out::Unit).map_err(es),
        Call::SetLeavesFrom(..) => r.set_leaves_from(x.i, Cursor::new(x.a.clone())).map(|_| Out::Unit).map_err(es),
        Call::InitTreeWithLeaves(_) => r.init_tree_with_leaves(Cursor::new(x.a.clone())).map(|_| Out::Unit).map_err(es),
        Call::AtomicOperation(..) => r.atomic_operation(x.i, Cursor::new(x.a.clone()), Cursor::new(x.b.clone())).map(|_| Out::Unit).map_err(es),
        // "sequential batch updates that start at the current leaf count"
        Call::SeqAtomicOperation(..) => {
            let start = r.leaves_set();
            r.atomic_operation(start, Cursor::new(x.a.clone()), Cursor::new(x.b.clone())).map(|_| Out::Unit).map_err(es)
        }
        Call::SetTree(_) => r.set_tree(x.i).map(|_| Out::Unit).map_err(es),
        Call::SetMetadata(_) => r.set_metadata(&x.a).map(|_| Out::Unit).map_err(es),
        Call::Flush => r.flush().map(|_| Out::Unit).map_err(es),
        Call::GetLeaf(_) => {
            let res = r.get_leaf(x.i, &mut out);
            wbytes(res, out)
        }
        Call::GetRoot => {
            let res = r.get_root(&mut out);
            wbytes(res, out)
        }
        Call::GetProof(_) => {
            let res = r.get_proof(x.i, &mut out);
            wbytes(res, out)
        }
        Call::LeavesSet => Ok(Out::Usize(r.leaves_set())),
        Call::GetMetadata => {
            let res = r.get_metadata(&mut out);
            wbytes(res, out)
        }
        Call::KeyGen => {
            let res = r.key_gen(&mut out);
            wbytes(res, out)
        }
        Call::ExtendedKeyGen => {
            let res = r.extended_key_gen(&mut out);
            wbytes(res, out)
        }
        Call::SeededKeyGen(_) => {
            let res = r.seeded_key_gen(Cursor::new(x.a.clone()), &mut out);
            wbytes(res, out)
        }
        Call::SeededExtendedKeyGen(_) => {
            let res = r.seeded_extended_key_gen(Cursor::new(x.a.clone()), &mut out);
            wbytes(res, out)
        }
        Call::Hash(_) => {
            let res = rln::public::hash(Cursor::new(x.a.clone()), &mut out);
            wbytes(res, out)
        }
        Call::PoseidonHash(_) => {
            let res = rln::public::poseidon_hash(Cursor::new(x.a.clone()), &mut out);
            wbytes(res, out)
        }
        Call::Verify(_) => r.verify(Cursor::new(x.a.clone())).map(Out::Bool).map_err(es),
        Call::VerifyRlnProof(_) => r.verify_rln_proof(Cursor::new(x.a.clone())).map(Out::Bool).map_err(es),
        Call::VerifyWithRoots(..) => r.verify_with_roots(Cursor::new(x.a.clone()), Cursor::new(x.b.clone())).map(Out::Bool).map_err(es),
        Call::RecoverIdSecret(..) => {
            let res = r.recover_id_secret(Cursor::new(x.a.clone()), Cursor::new(x.b.clone()), &mut out);
            wbytes(res, out)
        }
        Call::GenerateRlnProof(..) => {
            let res = r.generate_rln_proof(Cursor::new(x.a.clone()), &mut out);
            wbytes(res, out)
        }
        Call::GenerateRlnProofWithWitness(..) => {
            let res = r.generate_rln_proof_with_witness(Cursor::new(x.a.clone()), &mut out);
            wbytes(res, out)
        }
        Call::Prove(_) => {
            let res = r.prove(Cursor::new(x.a.clone()), &mut out);
            wbytes(res, out)
        }
        Call::New(_) => unreachable!(),
    }
}

/// the same call through the extern "C" surface
fn ffi_call(ctx: *mut RLN, c: &Call, x: &Args) -> FfiRes {
    let (ba, bb) = (buf(&x.a), buf(&x.b));
    let (pa, pb) = (&ba as *const Buffer, &bb as *const Buffer);
    match c {
        Call::SetLeaf(..) | Call::Register(_) => unit(f::set_leaf(ctx, x.i, pa)),
        Call::DeleteLeaf(_) => unit(f::delete_leaf(ctx, x.i)),
        Call::SetNextLeaf(_) => unit(f::set_next_leaf(ctx, pa)),
        Call::SetLeavesFrom(..) => unit(f::set_leaves_from(ctx, x.i, pa)),
        Call::InitTreeWithLeaves(_) => unit(f::init_tree_with_leaves(ctx, pa)),
        Call::AtomicOperation(..) => unit(f::atomic_operation(ctx, x.i, pa, pb)),
        Call::SeqAtomicOperation(..) => unit(f::seq_atomic_operation(ctx, pa, pb)),
        Call::SetTree(_) => unit(f::set_tree(ctx, x.i)),
        Call::SetMetadata(_) => unit(f::set_metadata(ctx, pa)),
        Call::Flush => unit(f::flush(ctx)),
        Call::GetLeaf(_) => with_out(|o| f::get_leaf(ctx, x.i, o)),
        Call::GetRoot => with_out(|o| f::get_root(ctx, o)),
        Call::GetProof(_) => with_out(|o| f::get_proof(ctx, x.i, o)),
        Call::LeavesSet => FfiRes { flag: true, out: Out::Usize(f::leaves_set(ctx)), untouched: true },
        Call::GetMetadata => with_out(|o| f::get_metadata(ctx, o)),
        Call::KeyGen => with_out(|o| f::key_gen(ctx, o)),
        Call::ExtendedKeyGen => with_out(|o| f::extended_key_gen(ctx, o)),
        Call::SeededKeyGen(_) if IN_PLACE.with(|c| c.get()) => with_out_in_place(&x.a, |i, o| f::seeded_key_gen(ctx, i, o)),
        Call::SeededKeyGen(_) => with_out(|o| f::seeded_key_gen(ctx, pa, o)),
        Call::SeededExtendedKeyGen(_) if IN_PLACE.with(|c| c.get()) => with_out_in_place(&x.a, |i, o| f::seeded_extended_key_gen(ctx, i, o)),
        Call::SeededExtendedKeyGen(_) => with_out(|o| f::seeded_extended_key_gen(ctx, pa, o)),
        Call::Hash(_) if IN_PLACE.with(|c| c.get()) => with_out_in_place(&x.a, |i, o| f::hash(i, o)),
        Call::Hash(_) => with_out(|o| f::hash(pa, o)),
        Call::PoseidonHash(_) if IN_PLACE.with(|c| c.get()) => with_out_in_place(&x.a, |i, o| f::poseidon_hash(i, o)),
        Call::PoseidonHash(_) => with_out(|o| f::poseidon_hash(pa, o)),
        Call::Verify(_) => with_bool(|v| f::verify(ctx, pa, v)),
        Call::VerifyRlnProof(_) => with_bool(|v| f::verify_rln_proof(ctx, pa, v)),
        Call::VerifyWithRoots(..) => with_bool(|v| f::verify_with_roots(ctx, pa, pb, v)),
        Call::RecoverIdSecret(..) => with_out(|o| f::recover_id_secret(ctx, pa, pb, o)),
        Call::GenerateRlnProof(..) if IN_PLACE.with(|c| c.get()) => with_out_in_place(&x.a, |i, o| f::generate_rln_proof(ctx, i, o)),
        Call::GenerateRlnProof(..) => with_out(|o| f::generate_rln_proof(ctx, pa, o)),
        Call::GenerateRlnProofWithWitness(..) if IN_PLACE.with(|c| c.get()) => with_out_in_place(&x.a, |i, o| f::generate_rln_proof_with_witness(ctx, i, o)),
        Call::GenerateRlnProofWithWitness(..) => with_out(|o| f::generate_rln_proof_with_witness(ctx, pa, o)),
        Call::Prove(_) if IN_PLACE.with(|c| c.get()) => with_out_in_place(&x.a, |i, o| f::prove(ctx, i, o)),
        Call::Prove(_) => with_out(|o| f::prove(ctx, pa, o)),
        Call::New(_) => unreachable!(),
    }
}

fn kind(c: &Call) -> &'static str {
    match c {
        Call::SetLeaf(..) => "set_leaf",
        Call::DeleteLeaf(_) => "delete_leaf",
        Call::SetNextLeaf(_) => "set_next_leaf",
        Call::SetLeavesFrom(..) => "set_leaves_from",
        Call::InitTreeWithLeaves(_) => "init_tree_with_leaves",
        Call::AtomicOperation(..) => "atomic_operation",
        Call::SeqAtomicOperation(..) => "seq_atomic_operation",
        Call::SetTree(_) => "set_tree",
        Call::SetMetadata(_) => "set_metadata",
        Call::Flush => "flush",
        Call::GetLeaf(_) => "get_leaf",
        Call::GetRoot => "get_root",
        Call::GetProof(_) => "get_proof",
        Call::LeavesSet => "leaves_set",
        Call::GetMetadata => "get_metadata",
        Call::KeyGen => "key_gen",
        Call::ExtendedKeyGen => "extended_key_gen",
        Call::SeededKeyGen(_) => "seeded_key_gen",
        Call::SeededExtendedKeyGen(_) => "seeded_extended_key_gen",
        Call::Hash(_) => "hash",
        Call::PoseidonHash(_) => "poseidon_hash",
        Call::Verify(_) => "verify",
        Call::VerifyRlnProof(_) => "verify_rln_proof",
        Call::VerifyWithRoots(..) => "verify_with_roots",
        Call::RecoverIdSecret(..) => "recover_id_secret",
        Call::Register(_) => "set_leaf(register)",
        Call::GenerateRlnProof(..) => "generate_rln_proof",
        Call::GenerateRlnProofWithWitness(..) => "generate_rln_proof_with_witness",
        Call::Prove(_) => "prove",
        Call::New(_) => "new",
    }
}

fn randomized(c: &Call) -> bool {
    matches!(c, Call::KeyGen | Call::ExtendedKeyGen | Call::GenerateRlnProof(..) | Call::GenerateRlnProofWithWitness(..) | Call::Prove(_))
}

// ---------------------------------------------------------------------------------------------
// state observation through both surfaces
// ---------------------------------------------------------------------------------------------

#[derive(Debug, Clone, PartialEq, Eq)]
struct Obs {
    root: Option<Vec<u8>>,
    leaves_set: usize,
    leaves: Vec<Option<Vec<u8>>>,
    metadata: Option<Vec<u8>>,
    proof0: Option<Vec<u8>>,
}

fn probe_list(depth: usize, extra: &[usize]) -> Vec<usize> {
    let c = cap(depth);
    let mut v: Vec<usize> = if c <= 32 { (0..c).collect() } else { vec![0, 1, 2, 3, c / 2 - 1, c / 2, c - 2, c - 1] };
    for &e in extra {
        if e < c {
            v.push(e);
        }
    }
    v.push(c); // one position outside: both surfaces must refuse it
    v.sort();
    v.dedup();
    v
}

fn observe_rust(r: &mut RLN, depth: usize, extra: &[usize]) -> Obs {
    let get = |r: &RLN, i: usize| {
        let mut o = vec![];
        r.get_leaf(i, &mut o).ok().map(|_| o)
    };
    let mut root = vec![];
    let root = r.get_root(&mut root).ok().map(|_| root);
    let mut md = vec![];
    let metadata = r.get_metadata(&mut md).ok().map(|_| md);
    let mut p0 = vec![];
    let proof0 = r.get_proof(extra.first().copied().unwrap_or(0).min(cap(depth) - 1), &mut p0).ok().map(|_| p0);
    Obs { root, leaves_set: r.leaves_set(), leaves: probe_list(depth, extra).into_iter().map(|i| get(r, i)).collect(), metadata, proof0 }
}

fn observe_ffi(ctx: *mut RLN, depth: usize, extra: &[usize]) -> Obs {
    let by = |r: FfiRes| match (r.flag, r.out) {
        (true, Out::Bytes(b)) => Some(b),
        _ => None,
    };
    Obs {
        root: by(with_out(|o| f::get_root(ctx, o))),
        leaves_set: f::leaves_set(ctx),
        leaves: probe_list(depth, extra).into_iter().map(|i| by(with_out(|o| f::get_leaf(ctx, i, o)))).collect(),
        metadata: by(with_out(|o| f::get_metadata(ctx, o))),
        proof0: by(with_out(|o| f::get_proof(ctx, extra.first().copied().unwrap_or(0).min(cap(depth) - 1), o))),
    }
}

// ---------------------------------------------------------------------------------------------
// abort guard: a panic inside an extern "C" function aborts the process; report it as a violation
// of this property with the in-flight case as the replay
// ---------------------------------------------------------------------------------------------

thread_local! {
    static INFLIGHT: std::cell::Cell<(*const u8, usize)> = const { std::cell::Cell::new((std::ptr::null(), 0)) };
}

extern "C" fn on_abort(_sig: i32) {
    let (p, n) = INFLIGHT.with(|c| c.get());
    unsafe {
        if !p.is_null() {
            libc_write(1, p, n);
        }
        libc_exit(1);
    }
}

extern "C" {
    #[link_name = "write"]
    fn libc_write(fd: i32, buf: *const u8, n: usize) -> isize;
    #[link_name = "_exit"]
    fn libc_exit(code: i32) -> !;
    fn signal(sig: i32, handler: extern "C" fn(i32)) -> usize;
}

fn arm_abort_guard(case: &Case) {
    static ONCE: std::sync::Once = std::sync::Once::new();
    ONCE.call_once(|| unsafe {
        signal(6, on_abort);
    });
    let dir = out_root().join("replays");
    let _ = std::fs::create_dir_all(&dir);
    let path = dir.join(format!("C11-inflight-{:016x}.json", case_hash(case)));
    let v = serde_json::json!({"property": "C11", "reason": "process aborted inside an FFI call (panic in an extern \"C\" function)", "case": case});
    let _ = std::fs::write(&path, serde_json::to_string_pretty(&v).unwrap());
    let msg = format!("VIOLATION property=C11 replay={}\n  reason: the process aborted inside an FFI call while the Rust API returned normally for the same arguments (panic in an extern \"C\" function)\n", path.display());
    let leaked: &'static [u8] = Box::leak(msg.into_bytes().into_boxed_slice());
    INFLIGHT.with(|c| c.set((leaked.as_ptr(), leaked.len())));
}

fn disarm_abort_guard(case: &Case) {
    INFLIGHT.with(|c| c.set((std::ptr::null(), 0)));
    let path = out_root().join("replays").join(format!("C11-inflight-{:016x}.json", case_hash(case)));
    let _ = std::fs::remove_file(path);
}

// ---------------------------------------------------------------------------------------------
// calling thread: a C caller may use a context from any of its threads (one call at a time). The
// interpreter owns one long-lived helper thread; a history's plan says which calls are made there.
// ---------------------------------------------------------------------------------------------

/// run `f` on this interpreter's long-lived helper thread (engine::on_helper) with the abort guard's
/// in-flight record visible there
fn on_helper<R>(f: impl FnOnce() -> R) -> R {
    let inflight = INFLIGHT.with(|c| c.get());
    crate::engine::on_helper(|| {
        INFLIGHT.with(|c| c.set(inflight));
        let r = f();
        INFLIGHT.with(|c| c.set((std::ptr::null(), 0)));
        r
    })
}

/// which thread makes the FFI call of a step / reads the state through the FFI around it
#[derive(Clone, Copy, PartialEq, Eq, Debug)]
struct ThreadPlan {
    call_on_helper: bool,
    observe_on_helper: bool,
}

fn thread_plan(caller: u8, step: usize) -> ThreadPlan {
    match caller % 4 {
        0 => ThreadPlan { call_on_helper: false, observe_on_helper: false },
        1 => ThreadPlan { call_on_helper: false, observe_on_helper: true },
        2 => ThreadPlan { call_on_helper: true, observe_on_helper: false },
        _ => ThreadPlan { call_on_helper: step % 2 == 0, observe_on_helper: step % 3 == 0 },
    }
}

fn observe_ffi_on(helper: bool, ctx: *mut RLN, depth: usize, extra: &[usize]) -> Obs {
    if helper {
        on_helper(|| observe_ffi(ctx, depth, extra))
    } else {
        observe_ffi(ctx, depth, extra)
    }
}

fn ffi_call_on(helper: bool, ctx: *mut RLN, c: &Call, x: &Args, in_place: bool) -> (FfiRes, Option<String>) {
    let run = || {
        IN_PLACE.with(|c| c.set(in_place));
        let r = ffi_call(ctx, c, x);
        IN_PLACE.with(|c| c.set(false));
        (r, PREV_OUT_BROKEN.with(|b| b.borrow_mut().take()))
    };
    if helper {
        on_helper(run)
    } else {
        run()
    }
}

// ---------------------------------------------------------------------------------------------
// the lockstep interpreter
// ---------------------------------------------------------------------------------------------

fn run_case(case: &Case, base: &std::path::Path, o: &mut Outcome) {
    let g = match gold() {
        Ok(g) => g,
        Err(e) => {
            vfail!(o, "cannot build the golden message pool (see C01): {e}");
            return;
        }
    };
    let depth = case.depth;
    let b = match rust_new(depth, b"{}") {
        Ok(Ok(r)) => r,
        other => {
            vfail!(o, "RLN::new({depth}, {{}}) failed: {:?}", other.map(|r| r.map(|_| ())));
            return;
        }
    };
    let (flag, a) = ffi_new(depth, b"{}");
    if !flag || a.is_null() {
        vfail!(o, "ffi::new({depth}, {{}}) reported {flag} (context {:?}) although RLN::new succeeds", a);
        return;
    }
    PREV_OUT.with(|p| p.borrow_mut().clear());
    PREV_OUT_BROKEN.with(|b| *b.borrow_mut() = None);
    let mut pair = Pair { a, b: Some(b), depth, last: None };
    let mut failed_then_ok = false;
    let mut had_failure = false;
    let mut seq_on_nonempty = false;
    for (step, c) in case.calls.iter().enumerate() {
        let k = kind(c);
        o.label(format!("call/{k}"));
        let depth = pair.depth;
        // ---- constructors -------------------------------------------------------------------
        if let Call::New(cfg0) = c {
            if matches!(cfg0, NewCfg::Persistent { .. } | NewCfg::TemporaryOnExistingPath { .. } | NewCfg::Reopen) {
                let cfg = match cfg0 {
                    NewCfg::Reopen => pair.last.clone().unwrap_or(NewCfg::Empty),
                    other => other.clone(),
                };
                // the storage location is locked by the instance that owns it: drop the old pair first
                if !pair.a.is_null() {
                    unsafe { drop(Box::from_raw(pair.a)) };
                    pair.a = std::ptr::null_mut();
                }
                pair.b = None;
                let attempt = |cfg: &NewCfg| construct_both(cfg, depth, base);
                let (rb, flag, ctx) = match attempt(&cfg) {
                    Ok(x) => x,
                    Err(_) => {
                        o.exclude("rust-api-panicked/new");
                        return;
                    }
                };
                if flag != rb.is_ok() {
                    vfail!(o, "step {step} constructor with {cfg:?}: FFI reported {flag}, Rust API returned {:?}", rb.as_ref().map(|_| ()));
                    if !ctx.is_null() {
                        unsafe { drop(Box::from_raw(ctx)) };
                    }
                    return;
                }
                match rb {
                    Ok(r) => {
                        if ctx.is_null() {
                            vfail!(o, "step {step} constructor with {cfg:?}: success without a context pointer");
                            return;
                        }
                        pair.a = ctx;
                        pair.b = Some(r);
                        pair.last = Some(cfg.clone());
                        o.label(format!("constructed/{}", match cfg { NewCfg::Persistent { .. } => "persistent", _ => "default" }));
                    }
                    Err(_) => {
                        had_failure = true;
                        o.label("constructor-refused");
                        // continue on default instances
                        match construct_both(&NewCfg::Empty, depth, base) {
                            Ok((Ok(r), true, c2)) if !c2.is_null() => {
                                pair.a = c2;
                                pair.b = Some(r);
                                pair.last = None;
                            }
                            _ => {
                                vfail!(o, "step {step}: cannot construct default instances after a refused configuration");
                                return;
                            }
                        }
                    }
                }
                // both surfaces must now show the same state (a reopened persistent tree included)
                let ob = observe_rust(pair.b.as_mut().unwrap(), pair.depth, &[]);
                let oa = observe_ffi(pair.a, pair.depth, &[]);
                if oa != ob {
                    vfail!(o, "step {step} after constructing with {cfg:?}: state read through the FFI differs from the Rust API's: ffi {oa:?} / rust {ob:?}");
                    return;
                }
                o.evals += 1;
                continue;
            }
            let cfg = cfg0;
            let (nd, text): (usize, Vec<u8>) = match cfg {
                NewCfg::Empty => (depth, b"{}".to_vec()),
                NewCfg::Garbage(b) => (depth, b.clone()),
                NewCfg::NotJson => (depth, b"{\"tree_config\": ".to_vec()),
                NewCfg::WithParams(_) => (depth, b"{}".to_vec()),
                _ => unreachable!(),
            };
            if let NewCfg::WithParams(valid) = cfg {
                let zkey = rln::circuit::ZKEY_BYTES.to_vec();
                let mut graph = rln::circuit::graph_from_folder().to_vec();
                if !*valid {
                    graph.truncate(graph.len() / 3);
                }
                let tc = b"{}".to_vec();
                let rb = guarded(|| RLN::new_with_params(nd, zkey.clone(), graph.clone(), Cursor::new(tc.clone())).map_err(|e| e.to_string()));
                let rb = match rb {
                    Ok(r) => r,
                    Err(_) => {
                        o.exclude("rust-api-panicked/new_with_params");
                        return;
                    }
                };
                let mut ctx: *mut RLN = std::ptr::null_mut();
                let flag = f::new_with_params(nd, &buf(&zkey), &buf(&graph), &buf(&tc), &mut ctx as *mut *mut RLN);
                if flag != rb.is_ok() {
                    vfail!(o, "step {step} new_with_params: FFI reported {flag}, Rust API returned {:?}", rb.as_ref().map(|_| ()));
                    return;
                }
                if let Ok(r) = rb {
                    if ctx.is_null() {
                        vfail!(o, "step {step} new_with_params: success without a context pointer");
                        return;
                    }
                    let old = std::mem::replace(&mut pair.a, ctx);
                    unsafe { drop(Box::from_raw(old)) };
                    pair.b = Some(r);
                    pair.last = None;
                } else if !ctx.is_null() {
                    vfail!(o, "step {step} new_with_params: failure but the context pointer was written");
                    return;
                }
            } else {
                let rb = match rust_new(nd, &text) {
                    Ok(r) => r,
                    Err(_) => {
                        o.exclude("rust-api-panicked/new");
                        return;
                    }
                };
                let (flag, ctx) = ffi_new(nd, &text);
                if flag != rb.is_ok() {
                    vfail!(o, "step {step} new({nd}, {}): FFI reported {flag}, Rust API returned {:?}", hex(&text), rb.as_ref().map(|_| ()));
                    return;
                }
                match rb {
                    Ok(r) => {
                        if ctx.is_null() {
                            vfail!(o, "step {step} new: success without a context pointer");
                            return;
                        }
                        let old = std::mem::replace(&mut pair.a, ctx);
                        unsafe { drop(Box::from_raw(old)) };
                        pair.b = Some(r);
                        pair.depth = nd;
                        pair.last = None;
                    }
                    Err(_) => {
                        had_failure = true;
                        if !ctx.is_null() {
                            vfail!(o, "step {step} new: failure but the context pointer was written");
                            return;
                        }
                    }
                }
            }
            o.evals += 1;
            continue;
        }
        // ---- arguments ----------------------------------------------------------------------
        let mark = pair.b.as_mut().unwrap().leaves_set();
        let res = |p: &Pos| p.resolve(cap(depth), mark);
        let mut x = Args { a: vec![], b: vec![], i: 0 };
        let mut touched: Vec<usize> = vec![];
        match c {
            Call::SetLeaf(p, l) => {
                x.i = res(p);
                x.a = leaf_bytes(l);
                touched.push(x.i);
            }
            Call::DeleteLeaf(p) | Call::GetLeaf(p) | Call::GetProof(p) => {
                x.i = res(p);
                touched.push(x.i);
            }
            Call::SetNextLeaf(l) => {
                x.a = leaf_bytes(l);
                touched.push(mark);
            }
            Call::SetLeavesFrom(p, v) => {
                x.i = res(p);
                x.a = vec_bytes(v);
                touched.extend((0..8).map(|k| x.i.wrapping_add(k)));
            }
            Call::InitTreeWithLeaves(v) | Call::PoseidonHash(v) => x.a = vec_bytes(v),
            Call::AtomicOperation(p, v, i) => {
                x.i = res(p);
                x.a = vec_bytes(v);
                x.b = idx_bytes(i);
                touched.extend((0..8).map(|k| x.i.wrapping_add(k)));
            }
            Call::SeqAtomicOperation(v, i) => {
                x.a = vec_bytes(v);
                x.b = idx_bytes(i);
                touched.extend((0..8).map(|k| mark.wrapping_add(k)));
                if mark > 0 {
                    seq_on_nonempty = true;
                }
            }
            // half of the resets keep the current height (reset of the same tree), the others change it
            Call::SetTree(h) => x.i = if *h % 2 == 0 { depth } else { 2 + ((*h / 2) as usize % 5) },
            Call::SetMetadata(b) => x.a = b.clone(),
            Call::SeededKeyGen(b) | Call::SeededExtendedKeyGen(b) | Call::Hash(b) => x.a = b.expand(),
            Call::Verify(m) => x.a = msg_bytes(m, false),
            Call::VerifyRlnProof(m) => x.a = msg_bytes(m, true),
            Call::VerifyWithRoots(m, r) => {
                x.a = msg_bytes(m, true);
                x.b = roots_bytes(r);
            }
            Call::RecoverIdSecret(m1, m2) => {
                x.a = msg_bytes(m1, true);
                x.b = msg_bytes(m2, true);
            }
            Call::Register(kk) => {
                let r = &g.reqs[*kk as usize % g.reqs.len()];
                x.i = r.index % cap(depth);
                x.a = cr::enc_fr(&r.rate_commitment());
                touched.push(x.i);
            }
            Call::GenerateRlnProof(kk, damaged) => {
                let mut r = g.reqs[*kk as usize % g.reqs.len()].clone();
                r.index %= cap(depth);
                x.a = r.encode();
                if *damaged {
                    x.a.truncate(x.a.len() - 3);
                }
            }
            Call::GenerateRlnProofWithWitness(kk, _) | Call::Prove(kk) => {
                let dmg = matches!(c, Call::GenerateRlnProofWithWitness(_, true));
                let mut r = g.reqs[*kk as usize % g.reqs.len()].clone();
                r.index %= cap(depth);
                let enc = r.encode();
                match guarded(|| pair.b.as_mut().unwrap().get_serialized_rln_witness(Cursor::new(enc)).map_err(|e| e.to_string())) {
                    Ok(Ok(w)) => x.a = w,
                    _ => x.a = vec![1, 2, 3],
                }
                if dmg {
                    let n = x.a.len();
                    x.a.truncate(n.saturating_sub(5));
                }
            }
            _ => {}
        }
        // range / batch writes far to the right of a depth-20 persistent tree take about a minute
        // (the batch insert walks every node left of the range end): keep them in the first 4096
        if depth == 20 && matches!(c, Call::SetLeavesFrom(..) | Call::AtomicOperation(..)) && x.i < cap(depth) {
            x.i %= 4096;
        }
        // ---- Rust API first: inputs for which it does not return are outside the quantifier ---
        let before_b = observe_rust(pair.b.as_mut().unwrap(), depth, &touched);
        let rb = {
            let r = pair.b.as_mut().unwrap();
            guarded(|| rust_call(r, c, &x))
        };
        let rb = match rb {
            Ok(r) => r,
            Err(p) => {
                o.exclude(format!("rust-api-panicked/{k}"));
                let _ = p;
                // B's state is no longer trustworthy: the history ends here
                break;
            }
        };
        let plan = thread_plan(case.caller, step);
        let before_a = observe_ffi_on(plan.observe_on_helper, pair.a, depth, &touched);
        if before_a != before_b {
            vfail!(o, "step {step} before {k}: state read through the FFI differs from the Rust API's: ffi {before_a:?} / rust {before_b:?}");
            return;
        }
        // one eligible call in three is made in place (the input Buffer struct is also the output struct)
        let in_place = (case_hash(case).wrapping_add(step as u64 * 0x9E37)) % 3 == 0;
        let (ra, broken) = ffi_call_on(plan.call_on_helper, pair.a, c, &x, in_place);
        o.evals += 1;
        if let Some(msg) = broken {
            vfail!(o, "step {step} {k}: {msg}");
            return;
        }
        let desc = || format!("step {step} {k}(index {}, arg1 {}, arg2 {})", x.i, hex(&x.a), hex(&x.b));
        // ---- success flag ---------------------------------------------------------------------
        if ra.flag != rb.is_ok() {
            vfail!(o, "{}: FFI reported {}, Rust API returned {:?}", desc(), ra.flag, rb.as_ref().map(|_| ()).map_err(|e| truncate(e, 120)));
            return;
        }
        match &rb {
            Ok(out_b) => {
                if had_failure {
                    failed_then_ok = true;
                }
                if randomized(c) {
                    // same shape, same deterministic part, and each side's output is accepted by the other
                    let (Out::Bytes(ob), Out::Bytes(oa)) = (out_b, &ra.out) else {
                        vfail!(o, "{}: outputs have different kinds: ffi {:?} / rust {:?}", desc(), ra.out, out_b);
                        return;
                    };
                    if oa.len() != ob.len() {
                        vfail!(o, "{}: output lengths differ: ffi {} / rust {}", desc(), oa.len(), ob.len());
                        return;
                    }
                    match c {
                        Call::KeyGen | Call::ExtendedKeyGen => {
                            // relations only (unseeded): last element = Poseidon(previous) is C14's job; here: canonical elements
                            if oa.len() % 32 != 0 || oa.chunks(32).any(|ch| &BigUint::from_bytes_le(ch) >= crate::models::field::p()) {
                                vfail!(o, "{}: FFI key material is not a sequence of canonical field elements: {}", desc(), hex(oa));
                                return;
                            }
                        }
                        Call::Prove(_) => {
                            let r = pair.b.as_ref().unwrap();
                            // prove() returns the bare proof; verify() needs proof|values: take B's values via the witness
                            if oa.len() != 128 {
                                vfail!(o, "{}: prove output has {} bytes", desc(), oa.len());
                                return;
                            }
                            let _ = r;
                        }
                        _ => {
                            if oa[128..] != ob[128..] {
                                vfail!(o, "{}: public values differ: ffi {} / rust {}", desc(), hex(&oa[128..]), hex(&ob[128..]));
                                return;
                            }
                            let r = pair.b.as_ref().unwrap();
                            let va = r.verify(Cursor::new(oa.clone())).map_err(|e| e.to_string());
                            let vb = r.verify(Cursor::new(ob.clone())).map_err(|e| e.to_string());
                            let mut fa = false;
                            let fl = f::verify(pair.a, &buf(ob), &mut fa as *mut bool);
                            if va != vb || !fl || Ok(fa) != vb {
                                vfail!(o, "{}: cross verification differs: rust verifies ffi's message {:?}, its own {:?}; ffi verifies rust's message {}:{}", desc(), va, vb, fl, fa);
                                return;
                            }
                            o.label("proof-cross-verified");
                        }
                    }
                } else if &ra.out != out_b {
                    vfail!(
                        o,
                        "{}: outputs differ: ffi {} / rust {}",
                        desc(),
                        match &ra.out { Out::Bytes(b) => hex(b), x => format!("{x:?}") },
                        match out_b { Out::Bytes(b) => hex(b), x => format!("{x:?}") }
                    );
                    return;
                }
                if let Call::SetTree(_) = c {
                    pair.depth = x.i;
                }
                match c {
                    Call::Verify(_) | Call::VerifyRlnProof(_) | Call::VerifyWithRoots(..) => o.label(format!("verdict/{:?}", out_b)),
                    Call::RecoverIdSecret(..) => {
                        if let Out::Bytes(b) = out_b {
                            o.label(if b.is_empty() { "recover/empty" } else { "recover/secret" });
                        }
                    }
                    _ => {}
                }
            }
            Err(_) => {
                had_failure = true;
                o.label(format!("failed/{k}"));
                if !ra.untouched {
                    vfail!(o, "{}: the call failed but its out-parameter was modified", desc());
                    return;
                }
            }
        }
        // ---- state after the call ---------------------------------------------------------------
        let depth = pair.depth;
        let after_b = observe_rust(pair.b.as_mut().unwrap(), depth, &touched);
        let after_a = observe_ffi_on(plan.observe_on_helper, pair.a, depth, &touched);
        if after_a != after_b {
            vfail!(o, "{}: afterwards the state read through the FFI differs from the Rust API's: ffi {after_a:?} / rust {after_b:?}", desc());
            return;
        }
        if rb.is_err() && after_a != before_a {
            vfail!(o, "{}: the call failed (on both surfaces) but changed the context: before {before_a:?} / after {after_a:?}", desc());
            return;
        }
    }
    o.nontrivial = failed_then_ok || seq_on_nonempty;
    if failed_then_ok {
        o.label("failure-then-success");
    }
    if seq_on_nonempty {
        o.label("seq-batch-on-nonempty-tree");
    }
    drop(pair);
}

// ---------------------------------------------------------------------------------------------
// generators
// ---------------------------------------------------------------------------------------------

fn pos() -> BoxedStrategy<Pos> {
    super::trees::pos_any()
}

fn leafbuf() -> BoxedStrategy<LeafBuf> {
    prop_oneof![
        10 => (0u8..POOL as u8).prop_map(LeafBuf::Valid),
        1 => ((0u8..POOL as u8), proptest::collection::vec(any::<u8>(), 1..8)).prop_map(|(i, e)| LeafBuf::Long(i, e)),
        1 => proptest::collection::vec(any::<u8>(), 32..=32).prop_map(LeafBuf::Raw),
        1 => proptest::collection::vec(any::<u8>(), 0..32).prop_map(LeafBuf::Raw),
    ]
    .boxed()
}

fn vecbuf() -> BoxedStrategy<VecBuf> {
    let idx = || proptest::collection::vec(0u8..POOL as u8, 0..7);
    prop_oneof![
        10 => idx().prop_map(VecBuf::Valid),
        2 => (idx(), prop_oneof![Just(-1i8), Just(1i8), Just(2i8), Just(100i8)]).prop_map(|(v, d)| VecBuf::BadLen(v, d)),
        2 => (idx(), 0u8..40).prop_map(|(v, c)| VecBuf::Truncated(v, c)),
        1 => proptest::collection::vec(any::<u8>(), 0..50).prop_map(VecBuf::Raw),
    ]
    .boxed()
}

fn idxbuf() -> BoxedStrategy<IdxBuf> {
    prop_oneof![
        10 => proptest::collection::vec(0u8..20, 0..5).prop_map(IdxBuf::Valid),
        1 => (proptest::collection::vec(0u8..20, 0..5), prop_oneof![Just(-1i8), Just(1i8), Just(50i8)]).prop_map(|(v, d)| IdxBuf::BadLen(v, d)),
        1 => proptest::collection::vec(any::<u8>(), 0..12).prop_map(IdxBuf::Raw),
    ]
    .boxed()
}

fn msgbuf() -> BoxedStrategy<MsgBuf> {
    prop_oneof![
        6 => (0u8..4).prop_map(MsgBuf::Golden),
        2 => (0u8..4, any::<u16>(), any::<u8>()).prop_map(|(k, a, x)| MsgBuf::Mutated(k, a, x)),
        2 => (0u8..4, any::<u16>()).prop_map(|(k, a)| MsgBuf::Truncated(k, a)),
        1 => (0u8..4, proptest::collection::vec(any::<u8>(), 0..20)).prop_map(|(k, s)| MsgBuf::OtherSignal(k, s)),
        1 => proptest::collection::vec(any::<u8>(), 0..400).prop_map(MsgBuf::Raw),
    ]
    .boxed()
}

fn rootsbuf() -> BoxedStrategy<RootsBuf> {
    prop_oneof![
        2 => Just(RootsBuf::Empty),
        4 => (any::<u8>(), any::<u8>()).prop_map(|(n, a)| RootsBuf::With(n, a)),
        2 => any::<u8>().prop_map(RootsBuf::Without),
        1 => proptest::collection::vec(any::<u8>(), 0..100).prop_map(RootsBuf::Raw),
    ]
    .boxed()
}

fn tree_call() -> BoxedStrategy<Call> {
    prop_oneof![
        8 => (pos(), leafbuf()).prop_map(|(p, l)| Call::SetLeaf(p, l)),
        3 => pos().prop_map(Call::DeleteLeaf),
        5 => leafbuf().prop_map(Call::SetNextLeaf),
        5 => (pos(), vecbuf()).prop_map(|(p, v)| Call::SetLeavesFrom(p, v)),
        2 => vecbuf().prop_map(Call::InitTreeWithLeaves),
        5 => (pos(), vecbuf(), idxbuf()).prop_map(|(p, v, i)| Call::AtomicOperation(p, v, i)),
        6 => (vecbuf(), idxbuf()).prop_map(|(v, i)| Call::SeqAtomicOperation(v, i)),
        2 => any::<u8>().prop_map(Call::SetTree),
        2 => proptest::collection::vec(any::<u8>(), 0..40).prop_map(Call::SetMetadata),
        1 => Just(Call::Flush),
        3 => pos().prop_map(Call::GetLeaf),
        2 => Just(Call::GetRoot),
        3 => pos().prop_map(Call::GetProof),
        1 => Just(Call::LeavesSet),
        1 => Just(Call::GetMetadata),
    ]
    .boxed()
}

fn util_call() -> BoxedStrategy<Call> {
    prop_oneof![
        1 => Just(Call::KeyGen),
        1 => Just(Call::ExtendedKeyGen),
        2 => gens::bytes(700).prop_map(Call::SeededKeyGen),
        2 => gens::bytes(700).prop_map(Call::SeededExtendedKeyGen),
        2 => gens::bytes(700).prop_map(Call::Hash),
        3 => vecbuf().prop_map(Call::PoseidonHash),
        3 => msgbuf().prop_map(Call::Verify),
        3 => msgbuf().prop_map(Call::VerifyRlnProof),
        4 => (msgbuf(), rootsbuf()).prop_map(|(m, r)| Call::VerifyWithRoots(m, r)),
        4 => (msgbuf(), msgbuf()).prop_map(|(a, b)| Call::RecoverIdSecret(a, b)),
        1 => prop_oneof![4 => Just(NewCfg::Empty), 2 => proptest::collection::vec(any::<u8>(), 0..30).prop_map(NewCfg::Garbage), 1 => Just(NewCfg::NotJson)].prop_map(Call::New),
        1 => prop_oneof![
            6 => Just(NewCfg::Persistent { with_params: false }),
            1 => Just(NewCfg::Persistent { with_params: true }),
            2 => Just(NewCfg::TemporaryOnExistingPath { with_params: false }),
            1 => Just(NewCfg::TemporaryOnExistingPath { with_params: true }),
            8 => Just(NewCfg::Reopen),
        ].prop_map(Call::New),
    ]
    .boxed()
}

fn proof_call() -> BoxedStrategy<Call> {
    prop_oneof![
        4 => (0u8..4).prop_map(Call::Register),
        3 => (0u8..4, prop_oneof![4 => Just(false), 1 => Just(true)]).prop_map(|(k, d)| Call::GenerateRlnProof(k, d)),
        2 => (0u8..4, prop_oneof![4 => Just(false), 1 => Just(true)]).prop_map(|(k, d)| Call::GenerateRlnProofWithWitness(k, d)),
        1 => (0u8..4).prop_map(Call::Prove),
    ]
    .boxed()
}

impl Property for C11 {
    type Case = Case;
    fn id(&self) -> &'static str {
        "C11"
    }
    fn rule(&self) -> String {
        "histories of up to 16 calls over the whole extern \"C\" surface (tree mutators incl. atomic / sequential batches and batch initialisation, getters, metadata, flush, set_tree, new / new_with_params incl. non-temporary trees at a location per surface, refused configurations, and drop + re-construction with the same configuration, key generation seeded and unseeded, hash, poseidon_hash, verify / verify_rln_proof / verify_with_roots / recover_id_secret on golden, mutated, truncated and random messages, and — at depth 20 — set_leaf + generate_rln_proof / generate_rln_proof_with_witness / prove) with valid and malformed buffers (a third of the calls with one input and one output buffer are made in place: the same Buffer struct serves as both); instance A only through rln::ffi, instance B only through rln::public::RLN, same arguments. \
         Per call: flag == is_ok; output bytes equal (randomised outputs: same length, same public values, cross-verified); failed call leaves out-parameters untouched; an output buffer handed out earlier still reads the same after later calls; afterwards root, leaf count, probed leaves, metadata and a membership proof read through the FFI equal those read through the Rust API. Calls for which the Rust API panics end the history and are counted under excluded_known (outside the quantifier). \
         Calling threads: half of the histories are driven from one thread; in the others the state reads, the calls, or both in alternation are made by a second long-lived thread of the caller (strictly one call at a time) — flags, outputs and the state read through the FFI must not depend on which thread asks. \
         non-trivial = history with a failing call followed by a succeeding one, or a sequential batch on a tree with leaves_set > 0; distinct by case content".into()
    }
    fn assumptions(&self) -> Vec<String> {
        vec![
            "the extern \"C\" functions are called in-process from Rust with real Buffer structs and raw pointers (same ABI as a C caller; no C compiler involved)".into(),
            "a panic inside an extern \"C\" function aborts the process; a SIGABRT handler turns that into a VIOLATION line with the in-flight case as replay (unshrunk)".into(),
        ]
    }
    fn plan(&self, tier: Tier) -> Plan {
        Plan { shards: 16, cases_per_shard: tier.pick(50, 1200), max_shrink_iters: 512, watchdog_s: tier.pick(900, 10800) }
    }
    fn selftest(&self, _ctx: &Ctx) -> Result<(), String> {
        gold().map(|_| ())
    }
    fn strategy(&self, _tier: Tier, _shard: usize) -> BoxedStrategy<Case> {
        // half of the histories start from a context that already carries metadata, so that anything a
        // later call does (or fails to do) to it is observable
        // calling threads: mostly one; otherwise state reads / calls / both alternate with a long-lived helper thread
        let caller = || prop_oneof![3 => Just(0u8), 1 => Just(1u8), 1 => Just(2u8), 1 => Just(3u8)];
        let small = (2usize..=5, proptest::collection::vec(prop_oneof![7 => tree_call(), 3 => util_call()], 1..16), any::<bool>(), caller()).prop_map(|(depth, mut calls, init_meta, caller)| {
            if init_meta {
                calls.insert(0, Call::SetMetadata(b"initial metadata".to_vec()));
            }
            Case { depth, calls, caller }
        });
        let big = (proptest::collection::vec(prop_oneof![3 => proof_call(), 2 => tree_call(), 1 => util_call()], 1..7), caller()).prop_map(|(mut calls, caller)| {
            // at most two proving calls per history (each costs a Groth16 proof on both sides)
            let mut n = 0;
            calls.retain(|c| {
                if matches!(c, Call::GenerateRlnProof(_, false) | Call::GenerateRlnProofWithWitness(_, false) | Call::Prove(_)) {
                    n += 1;
                    n <= 2
                } else {
                    true
                }
            });
            Case { depth: 20, calls, caller }
        });
        prop_oneof![24 => small, 1 => big].boxed()
    }
    fn check(&self, ctx: &Ctx, case: &Case) -> Outcome {
        let mut o = Outcome::new();
        o.label(format!("depth/{}", case.depth));
        o.label(format!("calling-threads/{}", ["one", "state-reads-on-helper", "calls-on-helper", "alternating"][case.caller as usize % 4]));
        arm_abort_guard(case);
        let t0 = std::time::Instant::now();
        let base = ctx.tmpdir.join(format!("c11-{:016x}-{:?}", case_hash(case), std::thread::current().id()));
        let _ = std::fs::remove_dir_all(&base);
        run_case(case, &base, &mut o);
        let _ = std::fs::remove_dir_all(&base);
        if std::env::var("VERIF_TIMING").is_ok() && t0.elapsed().as_millis() > 500 {
            eprintln!("TIMING {:?} depth {} calls {:?}", t0.elapsed(), case.depth, case.calls.iter().map(kind).collect::<Vec<_>>());
        }
        disarm_abort_guard(case);
        o
    }
}

#[allow(dead_code)]
fn _unused(_: Fr, _: PosKind) {}
