//! C17 — all build configurations implement the same protocol.
//!
//! `/verif/c17probe` is compiled once per configuration (default = persistent tree + snarkjs key
//! file, fullmerkletree, no-default = optimal tree, arkzkey, stateless) by `./check` before this
//! runs. One generated workload (history of single-leaf writes / appends / deletions at depth 20,
//! probe positions, proving requests) is handed to every build:
//!   produce: every stateful build replays the history (root after every step, membership paths,
//!            leaves), registers the requests' leaves, emits witnesses and messages; the stateless
//!            build proves from the witnesses;
//!   verify:  every build verifies every message of every producer (raw, against its own tree,
//!            against the producer's root, plus negative controls).
//! Oracles: transcripts equal across builds AND equal to the ideal tree model / the RLN formulas;
//! proving key + constraint matrices digests equal across builds, and in the arkzkey build both
//! key files are parsed and compared element by element.

use crate::engine::*;
use crate::models::codec_ref as cr;
use crate::models::field::{big_to_fr, fr_to_big, fr_to_le32};
use crate::models::tree_model::TreeModel;
use crate::pipeline::{self, Req};
use ark_bn254::Fr;
use num_bigint::BigUint;
use proptest::prelude::*;
use serde::{Deserialize, Serialize};
use std::collections::BTreeMap;
use std::path::{Path, PathBuf};

pub struct C17;

pub const STATEFUL: [&str; 4] = ["default", "fullmerkle", "optimal", "arkzkey"];
pub const ALL: [&str; 5] = ["default", "fullmerkle", "optimal", "arkzkey", "stateless"];
const DEPTH: usize = 20;
const CAP: usize = 1 << DEPTH;

#[derive(Clone, Debug, Serialize, Deserialize)]
pub enum HOp {
    Set(usize, u8),
    Append(u8),
    Delete(usize),
    /// deletion relative to the leaf count at that point of the history: count-1, count, count+1
    DeleteNearCount(i8),
}

/// positions made concrete by walking the history (the leaf count after single writes, appends and
/// deletions follows from the operations alone)
fn concrete(ops: &[HOp]) -> Vec<HOp> {
    let mut mark = 0usize;
    let mut out = vec![];
    for o in ops {
        match o {
            HOp::Set(i, v) => {
                if *i < CAP {
                    mark = mark.max(*i + 1);
                }
                out.push(HOp::Set(*i, *v));
            }
            HOp::Append(v) => {
                if mark < CAP {
                    mark += 1;
                }
                out.push(HOp::Append(*v));
            }
            HOp::Delete(i) => out.push(HOp::Delete(*i)),
            HOp::DeleteNearCount(d) => {
                let i = (mark as i64 + (*d as i64).clamp(-1, 1)).clamp(0, CAP as i64) as usize;
                out.push(HOp::Delete(i));
            }
        }
    }
    out
}

#[derive(Clone, Debug, Serialize, Deserialize)]
pub struct Case {
    pub ops: Vec<HOp>,
    pub probes: Vec<usize>,
    pub reqs: Vec<Req>,
}

fn hex(b: &[u8]) -> String {
    b.iter().map(|x| format!("{x:02x}")).collect()
}

fn unhex(s: &str) -> Vec<u8> {
    (0..s.len() / 2).map(|i| u8::from_str_radix(&s[2 * i..2 * i + 2], 16).unwrap_or(0)).collect()
}

fn probe_bin(cfg: &str) -> PathBuf {
    Path::new(VERIF_ROOT).join("c17probe").join(format!("target-{cfg}")).join("release").join("c17probe")
}

fn workload_json(c: &Case) -> serde_json::Value {
    let ops: Vec<serde_json::Value> = concrete(&c.ops)
        .iter()
        .map(|o| match o {
            HOp::Set(i, v) => serde_json::json!({"k": "set", "i": i, "v": hex(&fr_to_le32(&super::trees::pool_value(*v)))}),
            HOp::Append(v) => serde_json::json!({"k": "append", "v": hex(&fr_to_le32(&super::trees::pool_value(*v)))}),
            HOp::Delete(i) => serde_json::json!({"k": "delete", "i": i}),
            HOp::DeleteNearCount(_) => unreachable!(),
        })
        .collect();
    let reqs: Vec<serde_json::Value> = c
        .reqs
        .iter()
        .map(|r| serde_json::json!({"index": r.index, "rc": hex(&cr::enc_fr(&r.rate_commitment())), "input": hex(&r.encode()), "signal": hex(&r.signal.expand())}))
        .collect();
    serde_json::json!({"depth": DEPTH, "ops": ops, "probes": c.probes, "reqs": reqs})
}

fn run_probe(cfg: &str, args: &[&Path], tmp: &Path) -> Result<Vec<String>, String> {
    let out = std::process::Command::new(probe_bin(cfg))
        .args(args)
        .env("TMPDIR", tmp)
        .stdin(std::process::Stdio::null())
        .stderr(std::process::Stdio::piped())
        .output()
        .map_err(|e| format!("INCONCLUSIVE cannot start the {cfg} probe: {e}"))?;
    let text = String::from_utf8_lossy(&out.stdout).to_string();
    let lines: Vec<String> = text.lines().map(|s| s.to_string()).collect();
    if !out.status.success() || lines.last().map(|s| s.as_str()) != Some("END") {
        return Err(format!(
            "configuration {cfg}: the probe did not run to completion (status {:?}); stderr: {}; last lines {:?}",
            out.status,
            truncate(&String::from_utf8_lossy(&out.stderr), 400),
            lines.iter().rev().take(3).collect::<Vec<_>>()
        ));
    }
    Ok(lines)
}

/// run the same probe invocation on several builds in parallel
fn run_many(cfgs: &[&'static str], args: &[&Path], tmp: &Path) -> Result<BTreeMap<&'static str, Vec<String>>, String> {
    let results: Vec<(&'static str, Result<Vec<String>, String>)> = std::thread::scope(|s| {
        let hs: Vec<_> = cfgs.iter().map(|c| (*c, s.spawn(move || run_probe(c, args, tmp)))).collect();
        hs.into_iter().map(|(c, h)| (c, h.join().unwrap_or_else(|_| Err("probe thread panicked".into())))).collect()
    });
    let mut m = BTreeMap::new();
    for (c, r) in results {
        m.insert(c, r?);
    }
    Ok(m)
}

fn lines_with<'a>(t: &'a [String], tag: &str) -> Vec<&'a String> {
    t.iter().filter(|l| l.starts_with(tag)).collect()
}

pub fn missing_probes() -> Vec<&'static str> {
    ALL.iter().copied().filter(|c| !probe_bin(c).exists()).collect()
}

fn check_case(ctx: &Ctx, case: &Case, o: &mut Outcome) -> Result<(), String> {
    let tmp = ctx.tmpdir.join(format!("c17-{:016x}", case_hash(case)));
    let _ = std::fs::create_dir_all(&tmp);
    let wfile = tmp.join("workload.json");
    std::fs::write(&wfile, workload_json(case).to_string()).map_err(|e| e.to_string())?;

    // ---------------- model ----------------------------------------------------------------------
    let mut m = TreeModel::new(DEPTH, Fr::from(0u64));
    let mut want_op: Vec<(bool, BigUint)> = vec![];
    let cops = concrete(&case.ops);
    for op in &cops {
        let ok = match op {
            HOp::Set(i, v) => m.set(*i, super::trees::pool_value(*v)) == crate::models::tree_model::Verdict::Applied,
            HOp::Append(v) => m.update_next(super::trees::pool_value(*v)) == crate::models::tree_model::Verdict::Applied,
            HOp::Delete(i) => {
                let inside = *i < m.mark;
                m.delete(*i);
                // deleting at or beyond the mark changes nothing; Ok or Err are both fine
                inside
            }
            HOp::DeleteNearCount(_) => unreachable!(),
        };
        want_op.push((ok, fr_to_big(&m.root())));
    }
    let hist_model = m.clone();
    for r in &case.reqs {
        m.set(r.index, big_to_fr(&r.rate_commitment()));
    }
    let final_root = fr_to_big(&m.root());

    // ---------------- produce (stateful builds) ------------------------------------------------------
    let prod = run_many(&STATEFUL, &[Path::new("produce"), &wfile], &tmp)?;
    o.evals += 4;
    for cfg in STATEFUL {
        let t = &prod[cfg];
        // history
        let ops = lines_with(t, "OP ");
        if ops.len() != case.ops.len() {
            return Err(format!("{cfg}: {} OP lines for {} operations", ops.len(), case.ops.len()));
        }
        for (k, l) in ops.iter().enumerate() {
            let f: Vec<&str> = l.split_whitespace().collect();
            let (want_ok, want_root) = &want_op[k];
            let root = BigUint::from_bytes_le(&unhex(f[3]));
            if &root != want_root {
                return Err(format!("configuration {cfg}: root after step {k} ({:?}) = {root}, ideal tree = {want_root}", cops[k]));
            }
            // deleting at or beyond the high-water mark changes nothing; Ok and Err are both fine (as in C06)
            let deleting_outside = matches!(cops[k], HOp::Delete(_) if !*want_ok);
            if (f[2] == "ok") != *want_ok && !deleting_outside {
                return Err(format!("configuration {cfg}: step {k} ({:?}) reported {}, expected {}", cops[k], f[2], if *want_ok { "ok" } else { "err" }));
            }
            o.evals += 1;
        }
        let ls = lines_with(t, "LEAVES_SET ");
        if ls.first().map(|s| s.as_str()) != Some(&format!("LEAVES_SET {}", hist_model.mark)) {
            return Err(format!("configuration {cfg}: {:?}, ideal tree high-water mark {}", ls.first(), hist_model.mark));
        }
        // membership paths and leaves
        for p in &case.probes {
            let want_leaf = hist_model.get(*p).map(|l| hex(&fr_to_le32(&l)));
            let got_leaf = t.iter().find(|l| l.starts_with(&format!("LEAF {p} "))).map(|l| l.split_whitespace().nth(2).unwrap_or("").to_string());
            if got_leaf.as_deref() != Some(want_leaf.as_deref().unwrap_or("err")) {
                return Err(format!("configuration {cfg}: leaf {p} = {got_leaf:?}, ideal tree {want_leaf:?}"));
            }
            let got = t.iter().find(|l| l.starts_with(&format!("PROOF {p} "))).map(|l| l.split_whitespace().nth(2).unwrap_or("").to_string()).unwrap_or_default();
            match hist_model.proof(*p) {
                Some((sibs, bits)) => {
                    let (els, idx) = cr::dec_merkle_proof(&unhex(&got)).map_err(|e| format!("configuration {cfg}: membership path {p} does not follow the documented layout: {e}"))?;
                    let want_els: Vec<BigUint> = sibs.iter().map(fr_to_big).collect();
                    if els != want_els || idx != bits {
                        let lvl = els.iter().zip(want_els.iter()).position(|(a, b)| a != b);
                        return Err(format!("configuration {cfg}: membership path of position {p} differs from the ideal tree (first differing level {lvl:?}, bits {idx:?} / {bits:?})"));
                    }
                }
                None => {
                    if got != "err" {
                        return Err(format!("configuration {cfg}: membership path for position {p} outside the tree was produced"));
                    }
                }
            }
            o.evals += 2;
        }
        // registration roots
        let regs = lines_with(t, "REG ");
        if let Some(last) = regs.last() {
            let root = BigUint::from_bytes_le(&unhex(last.split_whitespace().nth(3).unwrap_or("")));
            if root != final_root {
                return Err(format!("configuration {cfg}: root after registering the provers' leaves = {root}, ideal tree = {final_root}"));
            }
        }
    }
    // transcripts of history/paths/witnesses identical across builds (KEY/MSG handled below)
    let norm = |t: &Vec<String>| -> Vec<String> { t.iter().filter(|l| ["OP ", "LEAVES_SET", "PROOF ", "LEAF ", "REG ", "WIT "].iter().any(|p| l.starts_with(p))).map(|l| if l.starts_with("OP ") { let f: Vec<&str> = l.split_whitespace().collect(); format!("OP {} {}", f[1], f[3]) } else { l.clone() }).collect() };
    let base = norm(&prod["default"]);
    for cfg in &STATEFUL[1..] {
        let t = norm(&prod[cfg]);
        if let Some(i) = base.iter().zip(t.iter()).position(|(a, b)| a != b) {
            return Err(format!("configurations default and {cfg} disagree:\n    default: {}\n    {cfg}: {}", truncate(&base[i], 200), truncate(&t[i], 200)));
        }
        if base.len() != t.len() {
            return Err(format!("configurations default and {cfg}: transcript lengths {} / {}", base.len(), t.len()));
        }
    }
    // ---------------- stateless produce from the witnesses ---------------------------------------------
    let wits: Vec<String> = lines_with(&prod["default"], "WIT ").iter().map(|l| l.split_whitespace().nth(2).unwrap_or("").to_string()).collect();
    if wits.iter().any(|w| w == "err") || wits.len() != case.reqs.len() {
        return Err(format!("default configuration: witness export failed for a valid request: {:?}", lines_with(&prod["default"], "WIT ").iter().map(|l| truncate(l, 80)).collect::<Vec<_>>()));
    }
    let witfile = tmp.join("witnesses.json");
    std::fs::write(&witfile, serde_json::to_string(&wits).unwrap()).map_err(|e| e.to_string())?;
    let sl = run_probe("stateless", &[Path::new("produce"), &wfile, &witfile], &tmp)?;
    o.evals += 1;
    // ---------------- keys --------------------------------------------------------------------------------
    let key_of = |t: &Vec<String>| t.iter().find(|l| l.starts_with("KEY ")).cloned().unwrap_or_default();
    let k0 = key_of(&prod["default"]);
    for (cfg, t) in prod.iter().map(|(c, t)| (*c, t)).chain(std::iter::once(("stateless", &sl))) {
        if key_of(t) != k0 || k0.is_empty() {
            return Err(format!("proving key / constraint matrices loaded by configuration {cfg} differ from the default configuration's:\n    default: {k0}\n    {cfg}: {}", key_of(t)));
        }
        o.evals += 1;
    }
    match prod["arkzkey"].iter().find(|l| l.starts_with("KEYCMP ")) {
        Some(l) if l.starts_with("KEYCMP equal") => {
            o.label("both-key-files-parsed-and-equal");
        }
        other => return Err(format!("arkzkey configuration: the arkworks key file and the snarkjs key file do not hold the same proving key / matrices: {other:?}")),
    }
    // ---------------- messages ------------------------------------------------------------------------------
    let mut msgs = vec![];
    for (cfg, t) in prod.iter().map(|(c, t)| (*c, t)).chain(std::iter::once(("stateless", &sl))) {
        let ml = lines_with(t, "MSG ");
        if ml.len() != case.reqs.len() {
            return Err(format!("configuration {cfg}: {} messages for {} requests", ml.len(), case.reqs.len()));
        }
        for (k, l) in ml.iter().enumerate() {
            let hx = l.split_whitespace().nth(2).unwrap_or("");
            let bytes = unhex(hx);
            if hx == "err" || bytes.len() != 288 {
                return Err(format!("configuration {cfg}: proving failed for valid request {k} ({:?}): {}", case.reqs[k], truncate(l, 200)));
            }
            let want = pipeline::expected_values(&case.reqs[k], &m);
            let got = crate::rlnh::values_from_bytes(&bytes[128..])?;
            if got != want {
                return Err(format!("configuration {cfg}: message {k} carries values {got:?}, the formulas over the ideal tree give {want:?}"));
            }
            msgs.push(serde_json::json!({"producer": cfg, "k": k, "msg": hx, "signal": hex(&case.reqs[k].signal.expand()), "root": hex(&cr::enc_fr(&final_root))}));
        }
    }
    let mfile = tmp.join("messages.json");
    std::fs::write(&mfile, serde_json::json!({"msgs": msgs}).to_string()).map_err(|e| e.to_string())?;
    // ---------------- verify: every build x every message ---------------------------------------------------
    let ver = run_many(&ALL, &[Path::new("verify"), &wfile, &mfile], &tmp)?;
    o.evals += 5;
    for cfg in ALL {
        let vl = lines_with(&ver[cfg], "V ");
        if vl.len() != msgs.len() {
            return Err(format!("configuration {cfg}: {} verdict lines for {} messages", vl.len(), msgs.len()));
        }
        for l in vl {
            let f: Vec<&str> = l.split_whitespace().collect();
            let producer = f[1];
            let want_tree = if cfg == "stateless" { "tree=n/a" } else { "tree=true" };
            let want = ["raw=true", want_tree, "roots=true", "roots_wrong=false", "tampered_proof=false", "tampered_signal=false"];
            let got = &f[3..];
            if got != want {
                // tampered_proof may be "err" (not a curve point): also a rejection
                let ok = got.len() == want.len() && got.iter().zip(want.iter()).all(|(g, w)| g == w || (w.ends_with("=false") && *g == w.replace("=false", "=err")));
                if !ok {
                    return Err(format!("message {} produced by configuration {producer} is judged by configuration {cfg} as: {} (expected {})", f[2], got.join(" "), want.join(" ")));
                }
            }
            o.evals += 1;
            if producer != cfg {
                o.count("cross_configuration_verifications", 1);
            }
        }
    }
    let _ = std::fs::remove_dir_all(&tmp);
    Ok(())
}

impl Property for C17 {
    type Case = Case;
    fn id(&self) -> &'static str {
        "C17"
    }
    fn rule(&self) -> String {
        "five builds of one probe program (default/persistent tree, fullmerkletree, no-default/optimal tree, arkzkey, stateless), compiled from /repo's working tree by ./check. Generated workload: history of up to 40 single-leaf writes, appends and deletions at depth 20 (positions incl. 0, the right half, capacity-1, and deletions at leaf count-1 / leaf count / leaf count+1; values incl. the default leaf), probe positions, 1-3 proving requests from C01's generator. \
         Compared: root after every step, leaf count, leaves and membership paths at the probe positions, roots after registering the provers' leaves, exported witnesses — across the four stateful builds and against the ideal tree model; public values of every message against the RLN formulas; digests of proving key / verifying key / constraint matrices across all five builds, and element-by-element equality of the two key files parsed inside the arkzkey build; every message of every producer (incl. the stateless prover fed with the exported witnesses) verified by every build: raw, against the build's own tree (stateful), against the producer's root, with negative controls (wrong root, altered proof byte, altered signal). \
         evaluations = compared observations; non-trivial = every case (each contains messages verified by a build other than their producer; the count is in counters.cross_configuration_verifications); distinct by case content".into()
    }
    fn assumptions(&self) -> Vec<String> {
        vec!["the probe is compiled against /repo by ./check before the run; a configuration whose zerokit sources do not compile is reported as a violation (the error locations are inside /repo), a probe that does not compile for other reasons as inconclusive".into()]
    }
    fn plan(&self, tier: Tier) -> Plan {
        Plan { shards: 1, cases_per_shard: tier.pick(8, 120), max_shrink_iters: 6, watchdog_s: tier.pick(1500, 14400) }
    }
    fn selftest(&self, _ctx: &Ctx) -> Result<(), String> {
        let miss = missing_probes();
        if miss.is_empty() {
            Ok(())
        } else {
            Err(format!("probe binaries missing for configurations {miss:?} (run through ./check, which builds them)"))
        }
    }
    fn strategy(&self, tier: Tier, _shard: usize) -> BoxedStrategy<Case> {
        let pos = prop_oneof![
            2 => Just(0usize),
            1 => Just(1usize),
            2 => 0usize..64,
            1 => Just((1usize << 19) - 1),
            2 => Just(1usize << 19),
            2 => (1usize << 19)..CAP,
            1 => Just(CAP - 1),
            1 => Just(CAP),
            3 => 0usize..CAP,
        ];
        let op = prop_oneof![
            5 => (pos.clone(), 0u8..6).prop_map(|(i, v)| HOp::Set(i, v)),
            4 => (0u8..6).prop_map(HOp::Append),
            3 => pos.clone().prop_map(HOp::Delete),
            2 => (-1i8..=1).prop_map(HOp::DeleteNearCount),
        ];
        let nreq = tier.pick(2usize, 3usize);
        (proptest::collection::vec(op, 0..40), proptest::collection::vec(pos, 1..6), proptest::collection::vec(pipeline::req_strategy(300), 1..=nreq))
            .prop_map(|(mut ops, mut probes, mut reqs)| {
                // deletions of positions written earlier make the history non-trivial: aim half of them
                let written: Vec<usize> = ops.iter().filter_map(|o| if let HOp::Set(i, _) = o { Some(*i) } else { None }).collect();
                // the positions appended to matter as probes too
                probes.push(written.iter().copied().filter(|i| *i < CAP).map(|i| i + 1).max().unwrap_or(0).min(CAP - 1));
                let mut w = written.iter().cycle();
                for (k, o) in ops.iter_mut().enumerate() {
                    if let HOp::Delete(i) = o {
                        if k % 2 == 0 && !written.is_empty() {
                            *i = *w.next().unwrap();
                        }
                    }
                }
                probes.extend(written.iter().take(3).copied());
                // provers sit at distinct positions
                let mut used = std::collections::BTreeSet::new();
                for r in reqs.iter_mut() {
                    while !used.insert(r.index) {
                        r.index = (r.index + 7919) % CAP;
                    }
                    probes.push(r.index ^ 1);
                }
                // the first positions outside the tree: every build must refuse them (and none may crash)
                probes.push(CAP);
                probes.push(CAP + 1);
                probes.sort();
                probes.dedup();
                Case { ops, probes, reqs }
            })
            .boxed()
    }
    fn check(&self, ctx: &Ctx, case: &Case) -> Outcome {
        let mut o = Outcome::new();
        o.nontrivial = true;
        o.label(format!("history-length/{}", case.ops.len() / 10 * 10));
        if case.ops.iter().any(|x| matches!(x, HOp::Delete(_) | HOp::DeleteNearCount(_))) {
            o.label("history-with-deletion");
        }
        if case.reqs.iter().any(|r| r.index >= 1 << 19) {
            o.label("prover-in-right-half");
        }
        match check_case(ctx, case, &mut o) {
            Ok(()) => {}
            Err(e) if e.starts_with("INCONCLUSIVE") => {
                println!("{e}");
                std::process::exit(2);
            }
            Err(e) => vfail!(o, "{e}"),
        }
        o
    }
    fn sample_view(&self, case: &Case) -> serde_json::Value {
        serde_json::json!({"ops": case.ops.iter().take(12).collect::<Vec<_>>(), "ops_total": case.ops.len(), "probes": case.probes, "requests": case.reqs.iter().map(|r| serde_json::json!({"index": r.index, "limit": r.limit.big().to_string(), "message_id": r.mid.big().to_string(), "signal_len": r.signal.len()})).collect::<Vec<_>>()})
    }
}
