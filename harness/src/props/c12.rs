//! C12 — proving never returns an unverifiable proof and never crashes.

use super::c01::{self, Entry};
use crate::engine::*;
use crate::gens::{self, Bytes};
use crate::models::codec_ref as cr;
use crate::models::field::{fr_to_big, p, Fx};
use crate::models::tree_model::TreeModel;
use crate::models::{keccak_ref, poseidon_ref};
use crate::pipeline::*;
use crate::refwit::{self, RefOut};
use crate::rlnh::*;
use num_bigint::BigUint;
use proptest::prelude::*;
use rln::public::RLN;
use serde::{Deserialize, Serialize};
use std::io::Cursor;

pub struct C12;

#[derive(Clone, Debug, Serialize, Deserialize, PartialEq)]
pub enum Inval {
    Valid,
    MidEqLimit,
    MidLimitPlus(u8),
    /// mid >= 2^16 with limit > mid
    MidAboveBitRange(u16, u16),
    /// limit - mid > 2^16 with mid < 2^16
    LimitFarAbove(u32),
    LimitZero,
    MidPm1,
    IndexCap,
    IndexCapPlus1,
    IndexMax,
    PathLen(u8),
    BitValue(u8, u8),
    BitsLen(u8),
    TruncateAt(u16),
    SignalLenLonger(u16),
    SignalLenShorter,
    SignalLenHuge(u8),
    Random(Bytes),
    Extend(u8),
}

#[derive(Clone, Copy, Debug, Serialize, Deserialize, PartialEq, Eq)]
pub enum Via {
    Tree,
    Witness,
    RawProve,
}

#[derive(Clone, Debug, Serialize, Deserialize)]
pub struct Case {
    pub req: Req,
    pub via: Via,
    pub inval: Inval,
    /// tree operations on other positions after the prover was registered (incl. reads of the
    /// prover's path and batch removals): the prover then works on a tree with a history
    #[serde(default)]
    pub history: Vec<c01::SideOp>,
    /// the instance is built by new_with_params from another valid key file and works with that key
    #[serde(default)]
    pub own_key: bool,
}

struct Built {
    bytes: Vec<u8>,
    /// witness-level model of the request when it still decodes (for the reference partition)
    wit: Option<Wit>,
    /// classes computed from the input (known-finding signatures)
    sigs: Vec<String>,
    signal: Vec<u8>,
}

fn two16() -> BigUint {
    BigUint::from(65536u32)
}

fn build(c: &Case, m: &TreeModel) -> Built {
    let mut req = c.req.clone();
    let mut sigs = vec![];
    let signal = req.signal.expand();
    match &c.inval {
        Inval::MidEqLimit => req.mid = req.limit,
        Inval::MidLimitPlus(d) => req.mid = Fx::from_big(&(req.limit.big() + 1u32 + *d as u32)),
        Inval::MidAboveBitRange(a, d) => {
            let mid = two16() + *a as u32;
            req.mid = Fx::from_big(&mid);
            req.limit = Fx::from_big(&(mid + 1u32 + *d as u32));
        }
        Inval::LimitFarAbove(d) => {
            req.limit = Fx::from_big(&(req.mid.big() + two16() + 1u32 + *d));
        }
        Inval::LimitZero => {
            req.limit = Fx::from_u64(0);
        }
        Inval::MidPm1 => req.mid = Fx::from_big(&(p() - 1u32)),
        Inval::IndexCap => req.index = CAP,
        Inval::IndexCapPlus1 => req.index = CAP + 1,
        Inval::IndexMax => req.index = usize::MAX,
        _ => {}
    }
    let (mid, limit) = (req.mid.big(), req.limit.big());
    if mid < limit && (mid >= two16() || &limit - &mid > two16()) {
        sigs.push("prove/outside-circuit-bit-range".to_string());
    }
    let x = crate::models::formulas::hash_to_field_ref(&signal);
    let (mut wit, mut bytes) = match c.via {
        Via::Tree => {
            let wit = m.proof(req.index).map(|(sibs, bits)| Wit { s: req.s, limit: req.limit, mid: req.mid, path: sibs.iter().map(|f| Fx(*f)).collect(), bits, x: fxb(&x), e: req.e });
            (wit, cr::enc_prove_input(&req.s.big(), req.index as u64, &req.limit.big(), &req.mid.big(), &req.e.big(), &signal))
        }
        Via::Witness | Via::RawProve => {
            let idx = if req.index < CAP { req.index } else { c.req.index % CAP };
            let (sibs, bits) = m.proof(idx).unwrap();
            let mut w = Wit { s: req.s, limit: req.limit, mid: req.mid, path: sibs.iter().map(|f| Fx(*f)).collect(), bits, x: fxb(&x), e: req.e };
            match &c.inval {
                Inval::PathLen(k) => {
                    let n = match k % 4 { 0 => 0, 1 => 19, 2 => 21, _ => 1 };
                    w.path.resize(n, Fx::from_u64(1));
                    w.bits.resize(n, 0);
                    sigs.push("prove/path-length".to_string());
                }
                Inval::BitValue(pos, v) => {
                    let i = *pos as usize % 20;
                    w.bits[i] = 2 + (*v % 254);
                }
                Inval::BitsLen(k) => {
                    let n = match k % 3 { 0 => 19, 1 => 21, _ => 0 };
                    w.bits.resize(n, 1);
                }
                _ => {}
            }
            let enc = w.encode();
            (Some(w), enc)
        }
    };
    match &c.inval {
        Inval::TruncateAt(sel) => {
            let cut = pick_index(*sel, bytes.len());
            bytes.truncate(cut);
            wit = None;
        }
        Inval::Extend(k) => {
            if c.via != Via::Tree {
                bytes.extend(std::iter::repeat(7u8).take(*k as usize % 9 + 1));
                wit = None;
            }
        }
        Inval::SignalLenLonger(d) if c.via == Via::Tree => {
            let off = 32 + 8 + 96;
            let v = signal.len() as u64 + 1 + *d as u64;
            bytes[off..off + 8].copy_from_slice(&v.to_le_bytes());
            wit = None;
        }
        Inval::SignalLenHuge(k) if c.via == Via::Tree => {
            let off = 32 + 8 + 96;
            let v: u64 = match k % 4 { 0 => u64::MAX, 1 => 1 << 63, 2 => 1 << 32, _ => u64::MAX - 135 };
            bytes[off..off + 8].copy_from_slice(&v.to_le_bytes());
            wit = None;
        }
        Inval::SignalLenShorter if c.via == Via::Tree && !signal.is_empty() => {
            // a shorter declared length is a well-formed request for the prefix signal
            let off = 32 + 8 + 96;
            let v = (signal.len() / 2) as u64;
            bytes[off..off + 8].copy_from_slice(&v.to_le_bytes());
            let x2 = crate::models::formulas::hash_to_field_ref(&signal[..signal.len() / 2]);
            if let Some(w) = wit.as_mut() {
                w.x = fxb(&x2);
            }
            return Built { bytes, wit, sigs, signal: signal[..signal.len() / 2].to_vec() };
        }
        Inval::Random(b) => {
            bytes = b.expand();
            wit = None;
        }
        _ => {}
    }
    Built { bytes, wit, sigs, signal }
}

fn inval_strategy() -> BoxedStrategy<Inval> {
    prop_oneof![
        6 => Just(Inval::Valid),
        3 => Just(Inval::MidEqLimit),
        1 => any::<u8>().prop_map(Inval::MidLimitPlus),
        2 => (any::<u16>(), any::<u16>()).prop_map(|(a, d)| Inval::MidAboveBitRange(a, d)),
        1 => (0u32..100_000).prop_map(Inval::LimitFarAbove),
        1 => Just(Inval::LimitZero),
        1 => Just(Inval::MidPm1),
        1 => Just(Inval::IndexCap),
        1 => Just(Inval::IndexCapPlus1),
        1 => Just(Inval::IndexMax),
        2 => any::<u8>().prop_map(Inval::PathLen),
        2 => (any::<u8>(), any::<u8>()).prop_map(|(a, b)| Inval::BitValue(a, b)),
        1 => any::<u8>().prop_map(Inval::BitsLen),
        3 => any::<u16>().prop_map(Inval::TruncateAt),
        1 => any::<u16>().prop_map(Inval::SignalLenLonger),
        1 => Just(Inval::SignalLenShorter),
        1 => any::<u8>().prop_map(Inval::SignalLenHuge),
        2 => gens::bytes(1500).prop_map(Inval::Random),
        1 => any::<u8>().prop_map(Inval::Extend),
    ]
    .boxed()
}

pub fn run(ctx: &Ctx, c: &Case, o: &mut Outcome) {
    // world: the identity is registered, so that a valid request is a valid membership
    let world = c01::Case { req: c.req.clone(), pre: vec![], post: c.history.clone(), entry: Entry::FromTree, place: c01::Place::SetLeaf, second: None, variant: if c.own_key { 8 } else { 0 } };
    let (mut r, m): (RLN, TreeModel) = match c01::build_world(&world) {
        Ok(x) => x,
        Err(e) => {
            vfail!(o, "cannot build the tree: {e}");
            return;
        }
    };
    let b = build(c, &m);
    for s in &b.sigs {
        o.label(format!("class/{s}"));
    }
    if let Some(k) = b.sigs.iter().find(|s| ctx.is_known(s)) {
        o.exclude(k.clone());
        return;
    }
    // reference partition for requests that still are witness-level assignments of circuit shape
    let mut satisfiable: Option<bool> = None;
    if let Some(w) = &b.wit {
        if w.path.len() == 20 && w.bits.len() == 20 {
            if let Ok(rw) = refwit::global(crate::props::c05::WORKERS) {
                match rw.eval(0, w, false) {
                    Ok(RefOut::Reject(_)) => satisfiable = Some(false),
                    Ok(_) => satisfiable = Some(true),
                    Err(_) => {}
                }
            }
        }
    }
    match satisfiable {
        Some(true) => o.label("reference/satisfiable"),
        Some(false) => o.label("reference/unsatisfiable"),
        None => o.label("reference/not-an-assignment"),
    }
    gens::set_io_style((case_hash(c) % 4) as u8);
    o.label(format!("io-style/{}", gens::io_style()));
    if c.own_key {
        o.label("instance-with-its-own-key");
    }
    // a quarter of the cases: verification is done by a second long-lived thread of the caller
    let second = (case_hash(c) / 4) % 4 == 1;
    verify_on_second_thread(second);
    if second {
        o.label("verified-by-a-second-thread");
    }
    let mut sink = gens::Sink::new();
    let res = match c.via {
        Via::Tree => guarded(|| r.generate_rln_proof(gens::rd(&b.bytes), &mut sink).map_err(|e| e.to_string())),
        Via::Witness => guarded(|| r.generate_rln_proof_with_witness(gens::rd(&b.bytes), &mut sink).map_err(|e| e.to_string())),
        Via::RawProve => guarded(|| r.prove(gens::rd(&b.bytes), &mut sink).map_err(|e| e.to_string())),
    };
    let out = sink.data;
    o.evals = 1;
    match res {
        Err(pn) => vfail!(o, "{:?} proving entry panicked on a {} request ({} bytes): {}", c.via, inval_name(&c.inval), b.bytes.len(), pn.0),
        Ok(Err(_)) => {
            o.label("outcome/error");
            // an error is the whole answer: what a refused request leaves in the caller's writer is
            // not a message in any documented layout (a stream of messages would lose its framing)
            if !out.is_empty() {
                vfail!(o, "{:?} proving entry refused a {} request (Err) but had already put {} bytes into the caller's writer", c.via, inval_name(&c.inval), out.len());
                return;
            }
            if c.inval == Inval::Valid {
                vfail!(o, "a valid request was rejected by the {:?} entry (index {}, limit {:?}, mid {:?})", c.via, c.req.index, c.req.limit, c.req.mid);
            }
        }
        Ok(Ok(())) => {
            o.label("outcome/proof-returned");
            // the returned message must be accepted by verification
            let msg: Vec<u8> = match c.via {
                Via::RawProve => {
                    // assemble the message with zerokit's own values for that witness
                    let pv = guarded(|| rln::protocol::deserialize_witness(&b.bytes).and_then(|(w, _)| rln::protocol::proof_values_from_witness(&w)).map(|v| rln::protocol::serialize_proof_values(&v)).map_err(|e| e.to_string()));
                    match pv {
                        Ok(Ok(v)) => {
                            let mut mm = out.clone();
                            mm.extend(v);
                            mm
                        }
                        other => {
                            vfail!(o, "prove succeeded but the proof values of the same witness cannot be computed: {other:?}");
                            return;
                        }
                    }
                }
                _ => out.clone(),
            };
            if msg.len() != 288 {
                vfail!(o, "proving reported success but wrote {} bytes", msg.len());
                return;
            }
            let v = match c.via {
                Via::Tree => call_verify_rln(&r, &verify_input(&msg, &b.signal)),
                _ => call_verify(&r, &msg),
            };
            o.evals += 1;
            if !v.is_true() {
                vfail!(o, "{:?} proving entry reported success for a {} request but verification of the returned message gives {v:?} (limit {:?}, mid {:?}, index {}, reference says satisfiable: {satisfiable:?})", c.via, inval_name(&c.inval), c.req.limit, c.req.mid, c.req.index);
                return;
            }
            if satisfiable == Some(false) {
                vfail!(o, "HARNESS ALARM: the reference generator rejects this assignment but the returned proof verifies (soundness assumption broken or oracle wrong)");
            }
            let _ = fr_to_big;
        }
    }
    // a refused / failed request must leave the instance usable: every third such case proves the
    // plain valid request on the same instance afterwards, which must succeed and verify
    if !o.failed() && c.inval != Inval::Valid && case_hash(c) % 3 == 0 {
        let req_bytes = c.req.encode();
        let mut out2 = vec![];
        o.label("valid-request-after-a-refused-one");
        match guarded(|| r.generate_rln_proof(Cursor::new(req_bytes), &mut out2).map_err(|e| e.to_string())) {
            Ok(Ok(())) => {
                let v = call_verify_rln(&r, &verify_input(&out2, &c.req.signal.expand()));
                o.evals += 2;
                if !v.is_true() {
                    vfail!(o, "after a {} request on the {:?} entry, the valid request on the same instance returned a message that verification rejects: {v:?}", inval_name(&c.inval), c.via);
                }
            }
            Ok(Err(e)) => vfail!(o, "after a {} request on the {:?} entry, the valid request on the same instance was refused: {e}", inval_name(&c.inval), c.via),
            Err(pn) => vfail!(o, "after a {} request on the {:?} entry, the valid request on the same instance panicked: {}", inval_name(&c.inval), c.via, pn.0),
        }
    }
}

/// A sequence of proving requests for one registered member, valid and refused ones on any entry
/// point, all written into ONE writer. What ends up in the writer must be exactly one record in the
/// documented layout per successful request (288 bytes proof | values, 128 bytes for raw prove) and
/// nothing for a refused one; every record, cut out of the stream at its computed offset, must be
/// accepted by verification.
pub fn run_stream(req: &Req, items: &[(Via, Inval)], o: &mut Outcome) {
    let world = c01::Case { req: req.clone(), pre: vec![], post: vec![], entry: Entry::FromTree, place: c01::Place::SetLeaf, second: None, variant: 0 };
    let (mut r, m): (RLN, TreeModel) = match c01::build_world(&world) {
        Ok(x) => x,
        Err(e) => {
            vfail!(o, "cannot build the tree: {e}");
            return;
        }
    };
    let mut sink = gens::Sink::new();
    // (offset, length, via, request bytes, signal)
    let mut records: Vec<(usize, usize, Via, Vec<u8>, Vec<u8>)> = vec![];
    for (k, (via, inval)) in items.iter().enumerate() {
        let c = Case { req: req.clone(), via: *via, inval: inval.clone(), history: vec![], own_key: false };
        let b = build(&c, &m);
        let before = sink.data.len();
        let res = match via {
            Via::Tree => guarded(|| r.generate_rln_proof(gens::rd(&b.bytes), &mut sink).map_err(|e| e.to_string())),
            Via::Witness => guarded(|| r.generate_rln_proof_with_witness(gens::rd(&b.bytes), &mut sink).map_err(|e| e.to_string())),
            Via::RawProve => guarded(|| r.prove(gens::rd(&b.bytes), &mut sink).map_err(|e| e.to_string())),
        };
        o.evals += 1;
        let added = sink.data.len() - before;
        match res {
            Err(pn) => {
                vfail!(o, "request {k} of the stream ({via:?}, {}): panicked: {}", inval_name(inval), pn.0);
                return;
            }
            Ok(Err(_)) => {
                o.label("stream/refused-request");
                if *inval == Inval::Valid {
                    vfail!(o, "request {k} of the stream ({via:?}, valid) was refused");
                    return;
                }
                if added != 0 {
                    vfail!(o, "request {k} of the stream ({via:?}, {}) was refused (Err) but put {added} bytes into the output stream: the stream is no longer a sequence of documented records", inval_name(inval));
                    return;
                }
            }
            Ok(Ok(())) => {
                o.label("stream/record-written");
                let want = if *via == Via::RawProve { 128 } else { 288 };
                if added != want {
                    vfail!(o, "request {k} of the stream ({via:?}, {}) succeeded and wrote {added} bytes, the documented record has {want}", inval_name(inval));
                    return;
                }
                records.push((before, added, *via, b.bytes.clone(), b.signal.clone()));
            }
        }
    }
    for (off, len, via, reqbytes, signal) in records {
        let rec = &sink.data[off..off + len];
        let v = match via {
            Via::Tree => call_verify_rln(&r, &verify_input(rec, &signal)),
            Via::Witness => call_verify(&r, rec),
            Via::RawProve => {
                let pv = guarded(|| rln::protocol::deserialize_witness(&reqbytes).and_then(|(w, _)| rln::protocol::proof_values_from_witness(&w)).map(|v| rln::protocol::serialize_proof_values(&v)).map_err(|e| e.to_string()));
                match pv {
                    Ok(Ok(vals)) => {
                        let mut mm = rec.to_vec();
                        mm.extend(vals);
                        call_verify(&r, &mm)
                    }
                    other => {
                        vfail!(o, "prove succeeded but the proof values of the same witness cannot be computed: {other:?}");
                        return;
                    }
                }
            }
        };
        o.evals += 1;
        if !v.is_true() {
            vfail!(o, "the record at offset {off} of the output stream ({via:?} entry) is not accepted by verification: {v:?}");
            return;
        }
    }
}

fn inval_name(i: &Inval) -> String {
    let s = format!("{i:?}");
    s.split(|c: char| !c.is_alphanumeric()).next().unwrap_or("").to_string()
}

impl Property for C12 {
    type Case = Case;
    fn id(&self) -> &'static str {
        "C12"
    }
    fn rule(&self) -> String {
        "proving requests for three entry points (generate_rln_proof from tree state, generate_rln_proof_with_witness, raw prove), valid ones (C01's generator; a third of the cases on a tree with a history of other members' writes, batch removals and reads of the prover's path after registration) and invalid ones by class: mid = limit, mid = limit+1+d, mid >= 2^16 with limit > mid, limit - mid > 2^16, limit = 0, mid = p-1, index in {cap, cap+1, usize::MAX}, path length 0/1/19/21, a direction value in 2..255, index vector of different length, truncation at a generated byte, trailing bytes, declared signal length longer / shorter / huge (2^32, 2^63, u64::MAX-135, u64::MAX), random bytes. Fixed part: every class (34 representatives) once on each of the three entry points; generated part: the same classes with generated requests and parameters. \
         One generated case in six (and one of the fixed valid requests) runs on an instance built by new_with_params from another valid key file. Oracle: Err (then nothing may have reached the caller's writer), or Ok with a message that verification accepts (verify_rln_proof against the same tree for the tree entry, verify for witness entries); a panic or an Ok with a rejected proof is a violation; valid requests must succeed; after every third invalid request the plain valid request is proved on the same instance and must succeed and verify. The reference witness generator partitions witness-level requests (label only; an accepted proof for an assignment it rejects raises a harness alarm). A quarter of the cases have every verification call made by a second long-lived thread of the caller (taking turns with the thread that proves and changes the tree). \
         non-trivial = any invalid class, or a valid request with mid = limit-1; distinct by case content".into()
    }
    fn assumptions(&self) -> Vec<String> {
        vec!["Groth16 soundness (a proof for an unsatisfied witness does not verify)".into(), "reference witness generator for the partition labels".into()]
    }
    fn plan(&self, tier: Tier) -> Plan {
        Plan { shards: 1, cases_per_shard: tier.pick(160, 6_000), max_shrink_iters: 24, watchdog_s: tier.pick(1500, 10_800) }
    }
    fn selftest(&self, _ctx: &Ctx) -> Result<(), String> {
        keccak_ref::selftest()?;
        poseidon_ref::selftest()?;
        refwit::global(crate::props::c05::WORKERS).map(|_| ())
    }
    fn strategy(&self, _tier: Tier, _shard: usize) -> BoxedStrategy<Case> {
        (
            req_strategy(3000),
            prop_oneof![3 => Just(Via::Tree), 2 => Just(Via::Witness), 1 => Just(Via::RawProve)],
            inval_strategy(),
            prop_oneof![2 => Just(vec![]).boxed(), 1 => proptest::collection::vec(c01::side_op(), 1..3).boxed()],
            prop_oneof![5 => Just(false), 1 => Just(true)],
        )
            .prop_map(|(req, via, inval, history, own_key)| Case { req, via, inval, history, own_key })
            .boxed()
    }
    /// every invalid class once per entry point, on a request drawn from the seed (the generated part
    /// then varies requests and parameters): no class is left to chance in the quick tier
    fn fixed_part(&self, ctx: &Ctx, stats: &mut Stats) -> Option<(String, Option<Case>)> {
        let reqs = draw(&req_strategy(300), ctx.seed, "c12-fixed", 2);
        let classes: Vec<Inval> = vec![
            Inval::MidEqLimit,
            Inval::MidLimitPlus(0),
            Inval::MidLimitPlus(200),
            Inval::MidAboveBitRange(0, 1),
            Inval::MidAboveBitRange(65535, 65535),
            Inval::LimitFarAbove(0),
            Inval::LimitFarAbove(99_999),
            Inval::LimitZero,
            Inval::MidPm1,
            Inval::IndexCap,
            Inval::IndexCapPlus1,
            Inval::IndexMax,
            Inval::PathLen(0),
            Inval::PathLen(1),
            Inval::PathLen(2),
            Inval::PathLen(3),
            Inval::BitValue(0, 0),
            Inval::BitValue(19, 253),
            Inval::BitsLen(0),
            Inval::BitsLen(1),
            Inval::BitsLen(2),
            Inval::TruncateAt(0),
            Inval::TruncateAt(9_000),
            Inval::TruncateAt(30_000),
            Inval::TruncateAt(65_535),
            Inval::SignalLenLonger(0),
            Inval::SignalLenLonger(1_000),
            Inval::SignalLenShorter,
            Inval::SignalLenHuge(0),
            Inval::SignalLenHuge(1),
            Inval::SignalLenHuge(2),
            Inval::SignalLenHuge(3),
            Inval::Extend(0),
            Inval::Extend(8),
        ];
        // valid requests from tree state on trees with a history after registration
        let histories: Vec<Vec<c01::SideOp>> = vec![
            vec![c01::SideOp::BatchRemove(c01::Where::Sibling, c01::Where::Neighbour)],
            vec![c01::SideOp::QueryPath, c01::SideOp::BatchRemove(c01::Where::First, c01::Where::OtherHalf)],
            vec![c01::SideOp::Set(c01::Where::Sibling, 3), c01::SideOp::QueryPath, c01::SideOp::Delete(c01::Where::Sibling)],
            vec![c01::SideOp::BigRegistration(1), c01::SideOp::BatchRemove(c01::Where::Uniform(5), c01::Where::Uniform(77))],
        ];
        for (k, history) in histories.into_iter().enumerate() {
            let c = Case { req: reqs[k % reqs.len()].clone(), via: Via::Tree, inval: Inval::Valid, history, own_key: k == 1 };
            let mut o = Outcome::new();
            o.label("via/Tree");
            o.label("request/Valid");
            o.label("fixed-history-sweep");
            o.nontrivial = true;
            run(ctx, &c, &mut o);
            let h = case_hash(&c);
            stats.record(&o, h, || serde_json::json!({"via": "Tree", "request": "Valid", "history": format!("{:?}", c.history)}));
            if let Some(m) = o.fail {
                return Some((m, Some(c)));
            }
        }
        for (k, inval) in classes.into_iter().enumerate() {
            for via in [Via::Tree, Via::Witness, Via::RawProve] {
                let c = Case { req: reqs[k % reqs.len()].clone(), via, inval: inval.clone(), history: vec![], own_key: false };
                let mut o = Outcome::new();
                o.label(format!("via/{:?}", c.via));
                o.label(format!("request/{}", inval_name(&c.inval)));
                o.label("fixed-class-sweep");
                o.nontrivial = true;
                run(ctx, &c, &mut o);
                let h = case_hash(&c);
                stats.record(&o, h, || serde_json::json!({"via": format!("{:?}", c.via), "request": format!("{:?}", c.inval)}));
                if let Some(m) = o.fail {
                    return Some((m, Some(c)));
                }
            }
        }
        None
    }
    fn check(&self, ctx: &Ctx, c: &Case) -> Outcome {
        let mut o = Outcome::new();
        o.label(format!("via/{:?}", c.via));
        o.label(format!("request/{}", inval_name(&c.inval)));
        o.nontrivial = c.inval != Inval::Valid || c.req.mid.big() + 1u32 == c.req.limit.big();
        run(ctx, c, &mut o);
        o
    }
    fn sample_view(&self, c: &Case) -> serde_json::Value {
        serde_json::json!({"via": format!("{:?}", c.via), "request": truncate(&format!("{:?}", c.inval), 120), "index": c.req.index, "limit": c.req.limit, "mid": c.req.mid, "signal_len": c.req.signal.len()})
    }
}
