//! C10 — byte encodings round-trip and match the documented layouts.

use crate::engine::*;
use crate::gens::{self, Bytes};
use crate::models::codec_ref::{self as cr, ValuesRef};
use crate::models::field::{big_to_fr, fr_to_big, p, Fx};
use crate::rlnh::*;
use ark_bn254::Fr;
use num_bigint::BigUint;
use proptest::prelude::*;
use rln::protocol as rp;
use rln::utils as ru;
use serde::{Deserialize, Serialize};

pub struct C10;

#[derive(Clone, Debug, Serialize, Deserialize)]
pub enum Case {
    /// proving requests (valid and refused ones, any entry point) written into one output stream
    Stream { req: crate::pipeline::Req, items: Vec<(crate::props::c12::Via, crate::props::c12::Inval)>, #[serde(default)] io: Option<u8> },
    /// unseeded identities: the bytes key_gen / extended_key_gen write (Rust API and C interface) are
    /// the documented tuples (secret, commitment) / (trapdoor, nullifier, secret, commitment), checked
    /// through the relations an importer of the bytes would recompute with its own Poseidon
    IdentityBytes(u8),
    Field(Fx),
    VecFr(Vec<Fx>),
    VecU8(Vec<u8>),
    VecUsize(Vec<u64>),
    Usize(u64),
    Witness { w: Wit, cut: u16, extend: u8 },
    Values([Fx; 5]),
    Identity([Fx; 4]),
    ProveInput { s: Fx, index: u64, limit: Fx, mid: Fx, e: Fx, signal: Bytes },
    VerifyInput { head: Bytes, signal: Bytes },
}

fn any_wit() -> BoxedStrategy<Wit> {
    // any path length and any direction bytes: the codec does not depend on the circuit's shape
    (
        gens::fx(),
        mid_limit(),
        proptest::collection::vec(gens::fx(), 0..40),
        proptest::collection::vec(any::<u8>(), 0..40),
        gens::fx(),
        gens::fx(),
    )
        .prop_map(|(s, (mid, limit), path, bits, x, e)| Wit { s, limit, mid, path, bits, x, e })
        .boxed()
}

fn usize_val() -> BoxedStrategy<u64> {
    prop_oneof![
        Just(0u64),
        Just(1u64),
        Just((1u64 << 32) - 1),
        Just(1u64 << 32),
        Just((1u64 << 32) + 1),
        Just(1u64 << 63),
        Just(u64::MAX),
        any::<u64>(),
        0u64..1000,
    ]
    .boxed()
}

fn leading_zero(f: &Fx) -> bool {
    f.big() < (BigUint::from(1u32) << 248usize)
}

macro_rules! g {
    ($o:expr, $what:expr, $e:expr) => {
        match guarded(|| $e) {
            Ok(v) => v,
            Err(p) => {
                vfail!($o, "{} panicked: {}", $what, p.0);
                return;
            }
        }
    };
}

fn identity_bytes(o: &mut Outcome) {
    use crate::models::poseidon_ref::poseidon;
    let r = crate::props::c14::rln_instance();
    let fields = |b: &[u8]| -> Vec<BigUint> { b.chunks(32).map(BigUint::from_bytes_le).collect() };
    let mut outs: Vec<(&str, Vec<u8>)> = vec![];
    let mut a = gens::Sink::new();
    match guarded(|| r.key_gen(&mut a).map_err(|e| e.to_string())) {
        Ok(Ok(())) => outs.push(("RLN::key_gen", a.data)),
        other => {
            vfail!(o, "RLN::key_gen failed: {other:?}");
            return;
        }
    }
    let mut b = gens::Sink::new();
    match guarded(|| r.extended_key_gen(&mut b).map_err(|e| e.to_string())) {
        Ok(Ok(())) => outs.push(("RLN::extended_key_gen", b.data)),
        other => {
            vfail!(o, "RLN::extended_key_gen failed: {other:?}");
            return;
        }
    }
    for (name, f) in [("ffi::key_gen", rln::ffi::key_gen as extern "C" fn(*const rln::public::RLN, *mut rln::ffi::Buffer) -> bool), ("ffi::extended_key_gen", rln::ffi::extended_key_gen)] {
        let mut ob = rln::ffi::Buffer { ptr: std::ptr::null(), len: 0 };
        if !f(r as *const rln::public::RLN, &mut ob as *mut rln::ffi::Buffer) {
            vfail!(o, "{name} reported failure");
            return;
        }
        outs.push((name, gens::ffi_take_output(ob.ptr, ob.len)));
    }
    for (name, bytes) in outs {
        o.evals += 1;
        let v = fields(&bytes);
        let ok = match (bytes.len(), v.len()) {
            (64, 2) => poseidon(&[v[0].clone()]) == v[1],
            (128, 4) => poseidon(&[v[0].clone(), v[1].clone()]) == v[2] && poseidon(&[v[2].clone()]) == v[3],
            _ => false,
        };
        if !ok || v.iter().any(|x| x >= p()) {
            vfail!(o, "{name}: the {} bytes written are not the documented identity tuple (secret, commitment = H(secret)) / (trapdoor, nullifier, secret = H(trapdoor, nullifier), commitment = H(secret)) in canonical 32-byte little-endian elements", bytes.len());
            return;
        }
    }
    if let Some(m) = gens::ffi_outputs_breach() {
        vfail!(o, "{m}");
    }
}

fn check_case(case: &Case, o: &mut Outcome) {
    match case {
        Case::Stream { req, items, io } => {
            gens::set_io_style(io.unwrap_or((case_hash(case) % 4) as u8));
            o.label(format!("stream/io-style-{}", gens::io_style()));
            crate::props::c12::run_stream(req, items, o);
        }
        Case::IdentityBytes(_) => identity_bytes(o),
        Case::Field(f) => {
            let want = cr::enc_fr(&f.big());
            let got = g!(o, "fr_to_bytes_le", ru::fr_to_bytes_le(&f.0));
            if got != want {
                vfail!(o, "fr_to_bytes_le({f:?}) = {got:?}, documented layout (32-byte LE) = {want:?}");
                return;
            }
            let (back, n) = g!(o, "bytes_le_to_fr", ru::bytes_le_to_fr(&want));
            if back != f.0 || n != 32 {
                vfail!(o, "bytes_le_to_fr(ref-encoding of {f:?}) = ({}, {n})", fr_to_big(&back));
                return;
            }
            let got2 = g!(o, "serialize_field_element", rp::serialize_field_element(f.0));
            let back2 = g!(o, "deserialize_field_element", rp::deserialize_field_element(want.clone()));
            if got2 != want || back2 != f.0 {
                vfail!(o, "serialize/deserialize_field_element disagree with the documented layout for {f:?}");
            }
        }
        Case::VecFr(v) => {
            let bigs = frs(v);
            let frv: Vec<Fr> = v.iter().map(|f| f.0).collect();
            let want = cr::enc_vec_fr(&bigs);
            match g!(o, "vec_fr_to_bytes_le", ru::vec_fr_to_bytes_le(&frv)) {
                Ok(got) if got == want => {}
                other => {
                    vfail!(o, "vec_fr_to_bytes_le(len {}) differs from the documented layout: {:?}", v.len(), other.map_err(|e| e.to_string()));
                    return;
                }
            }
            match g!(o, "bytes_le_to_vec_fr", ru::bytes_le_to_vec_fr(&want)) {
                Ok((back, n)) if back == frv && n == want.len() => {}
                other => {
                    vfail!(o, "bytes_le_to_vec_fr(ref-encoding, len {}) = {:?}", v.len(), other.map(|(b, n)| (b.len(), n)).map_err(|e| e.to_string()));
                    return;
                }
            }
            // independent decoder on zerokit's bytes
            let mut r = cr::Rd::new(&want);
            if r.vec_fr().ok() != Some(bigs) || !r.done() {
                vfail!(o, "reference decoder disagrees on vec_fr encoding");
            }
        }
        Case::VecU8(v) => {
            let want = cr::enc_vec_u8(v);
            match g!(o, "vec_u8_to_bytes_le", ru::vec_u8_to_bytes_le(v)) {
                Ok(got) if got == want => {}
                other => {
                    vfail!(o, "vec_u8_to_bytes_le differs from the documented layout: {:?}", other.map_err(|e| e.to_string()));
                    return;
                }
            }
            match g!(o, "bytes_le_to_vec_u8", ru::bytes_le_to_vec_u8(&want)) {
                Ok((back, n)) if back == *v && n == want.len() => {}
                other => vfail!(o, "bytes_le_to_vec_u8(ref-encoding of {} bytes) = {:?}", v.len(), other.map_err(|e| e.to_string())),
            }
        }
        Case::VecUsize(v) => {
            // the index-list layout written by get_empty_leaves_indices: u64 count + u64 each
            use ark_serialize::CanonicalSerialize;
            let want = cr::enc_vec_usize(v);
            let us: Vec<usize> = v.iter().map(|x| *x as usize).collect();
            let mut got = vec![];
            if g!(o, "serialize_compressed", us.serialize_compressed(&mut got)).is_err() || got != want {
                vfail!(o, "index list encoding differs from the documented layout for {v:?}");
                return;
            }
            match g!(o, "bytes_le_to_vec_usize", ru::bytes_le_to_vec_usize(&want)) {
                Ok(back) if back == us => {}
                other => {
                    vfail!(o, "bytes_le_to_vec_usize(ref-encoding of {v:?}) = {:?}", other.map_err(|e| e.to_string()));
                    return;
                }
            }
            if cr::dec_vec_usize(&got).ok().as_ref() != Some(v) {
                vfail!(o, "reference decoder disagrees on the index list");
            }
        }
        Case::Usize(u) => {
            let got = g!(o, "normalize_usize", ru::normalize_usize(*u as usize));
            if got.to_vec() != cr::enc_u64(*u) {
                vfail!(o, "normalize_usize({u}) = {got:?}");
            }
        }
        Case::Witness { w, cut, extend } => {
            let enc = w.encode();
            // decode with zerokit, re-encode with zerokit: must reproduce the reference bytes
            let iw = match w.to_impl() {
                Ok(Ok(iw)) => iw,
                other => {
                    vfail!(o, "deserialize_witness rejected the reference encoding of a valid witness: {:?}", other.map(|r| r.map(|_| ())));
                    return;
                }
            };
            match g!(o, "serialize_witness", rp::serialize_witness(&iw)) {
                Ok(got) if got == enc => {}
                Ok(got) => {
                    let k = (0..enc.len().min(got.len())).find(|k| got[*k] != enc[*k]).unwrap_or(enc.len().min(got.len()));
                    vfail!(o, "serialize_witness differs from the documented layout at byte {k} (lengths {} vs {})", got.len(), enc.len());
                    return;
                }
                Err(e) => {
                    vfail!(o, "serialize_witness failed: {e}");
                    return;
                }
            }
            // reference decoder on the bytes gives back the values
            if cr::dec_witness(&enc).ok() != Some(w.to_ref()) {
                vfail!(o, "reference decoder disagrees on the witness encoding");
                return;
            }
            // JSON round trip, and byte -> JSON -> byte
            match g!(o, "rln_witness_to_json", rp::rln_witness_to_json(&iw)) {
                Ok(j) => match g!(o, "rln_witness_from_json", rp::rln_witness_from_json(j)) {
                    Ok(back) => {
                        if back != iw {
                            vfail!(o, "JSON witness round trip changed the witness");
                            return;
                        }
                        match g!(o, "serialize_witness", rp::serialize_witness(&back)) {
                            Ok(b2) if b2 == enc => {}
                            _ => {
                                vfail!(o, "byte -> JSON -> byte round trip changed the encoding");
                                return;
                            }
                        }
                    }
                    Err(e) => {
                        vfail!(o, "rln_witness_from_json failed on rln_witness_to_json output: {e}");
                        return;
                    }
                },
                Err(e) => {
                    vfail!(o, "rln_witness_to_json failed: {e}");
                    return;
                }
            }
            // bigint JSON carries the decimal values
            match g!(o, "rln_witness_to_bigint_json", rp::rln_witness_to_bigint_json(&iw)) {
                Ok(j) => {
                    let r = w.to_ref();
                    let ok = j["identitySecret"] == r.s.to_string()
                        && j["userMessageLimit"] == r.limit.to_string()
                        && j["messageId"] == r.mid.to_string()
                        && j["x"] == r.x.to_string()
                        && j["externalNullifier"] == r.e.to_string()
                        && j["pathElements"].as_array().map(|a| a.iter().map(|v| v.as_str().unwrap_or("").to_string()).collect::<Vec<_>>()) == Some(r.path.iter().map(|v| v.to_string()).collect())
                        && j["identityPathIndex"].as_array().map(|a| a.iter().map(|v| v.as_str().unwrap_or("").to_string()).collect::<Vec<_>>()) == Some(r.bits.iter().map(|v| v.to_string()).collect());
                    if !ok {
                        vfail!(o, "rln_witness_to_bigint_json does not carry the witness values as decimal strings: {j}");
                        return;
                    }
                }
                Err(e) => {
                    vfail!(o, "rln_witness_to_bigint_json failed: {e}");
                    return;
                }
            }
            // missing or trailing bytes are never accepted
            let cutpos = pick_index(*cut, enc.len());
            let truncated = &enc[..cutpos];
            if let Ok(Ok(_)) = guarded(|| rp::deserialize_witness(truncated).map(|_| ())) {
                vfail!(o, "deserialize_witness accepted an encoding truncated to {cutpos} of {} bytes", enc.len());
                return;
            }
            let mut longer = enc.clone();
            longer.extend(std::iter::repeat(0xA5u8).take((*extend as usize % 40) + 1));
            if let Ok(Ok(_)) = guarded(|| rp::deserialize_witness(&longer).map(|_| ())) {
                vfail!(o, "deserialize_witness accepted an encoding with {} trailing bytes", longer.len() - enc.len());
            }
            o.evals = 8;
        }
        Case::Values(v) => {
            let r = ValuesRef { root: v[0].big(), e: v[1].big(), x: v[2].big(), y: v[3].big(), nullifier: v[4].big() };
            let want = cr::enc_values(&r);
            let pv = rp::RLNProofValues { root: v[0].0, external_nullifier: v[1].0, x: v[2].0, y: v[3].0, nullifier: v[4].0 };
            let got = g!(o, "serialize_proof_values", rp::serialize_proof_values(&pv));
            if got != want {
                vfail!(o, "serialize_proof_values differs from the documented layout [root|external_nullifier|x|y|nullifier] for {v:?}");
                return;
            }
            let (back, n) = g!(o, "deserialize_proof_values", rp::deserialize_proof_values(&want));
            if back != pv || n != 160 {
                vfail!(o, "deserialize_proof_values(ref-encoding) returned different values (read {n})");
                return;
            }
            if cr::dec_values(&got).ok() != Some(r) {
                vfail!(o, "reference decoder disagrees on proof values");
            }
        }
        Case::Identity(v) => {
            let bytes: Vec<u8> = v.iter().flat_map(|f| cr::enc_fr(&f.big())).collect();
            let (a, b) = g!(o, "deserialize_identity_pair", rp::deserialize_identity_pair(bytes[..64].to_vec()));
            if a != v[0].0 || b != v[1].0 {
                vfail!(o, "deserialize_identity_pair returned different values");
                return;
            }
            let t = g!(o, "deserialize_identity_tuple", rp::deserialize_identity_tuple(bytes.clone()));
            if [t.0, t.1, t.2, t.3] != [v[0].0, v[1].0, v[2].0, v[3].0] {
                vfail!(o, "deserialize_identity_tuple returned different values");
            }
        }
        Case::ProveInput { s, index, limit, mid, e, signal } => {
            let sig = signal.expand();
            let want = cr::enc_prove_input(&s.big(), *index, &limit.big(), &mid.big(), &e.big(), &sig);
            let got = g!(o, "prepare_prove_input", rp::prepare_prove_input(s.0, *index as usize, limit.0, mid.0, e.0, &sig));
            if got != want {
                let k = (0..want.len().min(got.len())).find(|k| got[*k] != want[*k]).unwrap_or(0);
                vfail!(o, "prepare_prove_input differs from the documented layout at byte {k} (lengths {} vs {})", got.len(), want.len());
                return;
            }
            // the decoder side: an independently encoded proving request (any signal length, incl.
            // empty) must decode to exactly these values; the membership path comes from the tree
            thread_local! {
                static TREE: std::cell::RefCell<Option<rln::poseidon_tree::PoseidonTree>> = const { std::cell::RefCell::new(None) };
            }
            let idx = (*index as usize) % (1usize << 20);
            let req = cr::enc_prove_input(&s.big(), idx as u64, &limit.big(), &mid.big(), &e.big(), &sig);
            let res = TREE.with(|t| {
                let mut t = t.borrow_mut();
                if t.is_none() {
                    use zerokit_utils::ZerokitMerkleTree;
                    *t = rln::poseidon_tree::PoseidonTree::default(20).ok();
                }
                let tree = t.as_mut().expect("tree");
                guarded(|| rp::proof_inputs_to_rln_witness(tree, &req).map_err(|e| e.to_string()))
            });
            match res {
                Ok(Ok((w, read))) => {
                    // (the returned count is undocumented — it excludes the signal — and is not judged)
                    let _ = read;
                    let enc = g!(o, "serialize_witness", rp::serialize_witness(&w).map_err(|e| e.to_string()));
                    let enc = match enc {
                        Ok(b) => b,
                        Err(e) => {
                            // the witness encoder applies the software range check on (message id, limit)
                            if mid.big() < limit.big() {
                                vfail!(o, "serialize_witness failed on a witness decoded from a well-formed proving request: {e}");
                            } else {
                                o.label("prove-input/message-id-not-below-limit");
                            }
                            return;
                        }
                    };
                    match cr::dec_witness(&enc) {
                        Ok(d) => {
                            let x = crate::models::formulas::hash_to_field_ref(&sig);
                            if d.s != s.big() || d.limit != limit.big() || d.mid != mid.big() || d.e != e.big() || d.x != x {
                                vfail!(o, "proof_inputs_to_rln_witness decoded an independently encoded request (signal {} bytes) to different values", sig.len());
                            }
                            let want_bits: Vec<u8> = (0..20).map(|k| ((idx >> k) & 1) as u8).collect();
                            if d.bits != want_bits || d.path.len() != 20 {
                                vfail!(o, "proof_inputs_to_rln_witness: path of leaf {idx} has bits {:?} / {} elements", d.bits, d.path.len());
                            }
                        }
                        Err(e) => vfail!(o, "witness produced from a proving request does not follow the witness layout: {e}"),
                    }
                }
                Ok(Err(e)) => {
                    // the software range check on (message id, limit) is the only legitimate refusal
                    let in_range = mid.big() < limit.big();
                    if in_range {
                        vfail!(o, "proof_inputs_to_rln_witness refused a well-formed proving request (signal {} bytes, index {idx}): {e}", sig.len());
                    } else {
                        o.label("prove-input/refused-message-id-not-below-limit");
                    }
                }
                Err(pn) => vfail!(o, "proof_inputs_to_rln_witness panicked on a well-formed proving request: {}", pn.0),
            }
        }
        Case::VerifyInput { head, signal } => {
            let (h, sig) = (head.expand(), signal.expand());
            let want = cr::enc_verify_input(&h, &sig);
            let got = g!(o, "prepare_verify_input", rp::prepare_verify_input(h.clone(), &sig));
            if got != want {
                vfail!(o, "prepare_verify_input differs from the documented layout (lengths {} vs {})", got.len(), want.len());
            }
        }
    }
}

impl Property for C10 {
    type Case = Case;
    fn id(&self) -> &'static str {
        "C10"
    }
    fn rule(&self) -> String {
        "values of every encodable type: field elements (boundary-weighted incl. 0, p-1 and leading-zero-byte values), Vec<Fr>/Vec<u8> of length 0..64 and size classes up to 3000 elements / 70000 bytes (255/256/257, 65535/65536), index lists and usize incl. 0, 2^32-1, 2^32, 2^63, witnesses with any path length/direction bytes, proof values, identity tuples, prove/verify requests with any signal; unseeded identity tuples as written by key_gen / extended_key_gen (Rust API and C interface; relations recomputed with the reference Poseidon); streams of 2..6 proving requests for one member (valid / outside the circuit's bit range / mid = limit / truncated / non-binary direction; tree, witness and raw-prove entries) written into one writer (the canonical stream once per writer behaviour: everything at once, 1, 7, 33 bytes per call); \
         checked: zerokit encoder == independent encoder, proving requests encoded independently (any signal length incl. empty) decode through proof_inputs_to_rln_witness to the same values and the leaf's direction bits, zerokit decoder on independent encoding == value, independent decoder on zerokit encoding == value, JSON and byte->JSON->byte round trips, bigint-JSON decimal strings, and one generated truncation + one extension of every witness encoding is not accepted; for a stream: every successful request appends exactly one record of the documented length (288 / 128 bytes), a refused request appends nothing, and every record cut out at its offset is accepted by verification. \
         non-trivial = value with a zero-length vector, a leading-zero field element, or an integer >= 2^32; distinct by case content".into()
    }
    fn assumptions(&self) -> Vec<String> {
        vec!["codec_ref.rs is written from the documented layouts in public.rs / protocol.rs and shares no code with rln::utils".into()]
    }
    fn plan(&self, tier: Tier) -> Plan {
        Plan { shards: 16, cases_per_shard: tier.pick(3_000, 200_000), max_shrink_iters: 2048, watchdog_s: tier.pick(900, 7200) }
    }
    fn strategy(&self, _tier: Tier, _shard: usize) -> BoxedStrategy<Case> {
        let fx5 = proptest::collection::vec(gens::fx(), 5).prop_map(|v| [v[0], v[1], v[2], v[3], v[4]]);
        let fx4 = proptest::collection::vec(gens::fx(), 4).prop_map(|v| [v[0], v[1], v[2], v[3]]);
        prop_oneof![
            3 => gens::fx().prop_map(Case::Field),
            3 => proptest::collection::vec(gens::fx(), 0..64).prop_map(Case::VecFr),
            2 => proptest::collection::vec(any::<u8>(), 0..64).prop_map(Case::VecU8),
            // size classes: a few hundred to a few thousand elements
            1 => (prop_oneof![Just(255usize), Just(256usize), Just(257usize), Just(1024usize), 65usize..3000], gens::fx()).prop_map(|(n, f)| Case::VecFr((0..n).map(|i| crate::models::field::Fx(f.0 + ark_bn254::Fr::from(i as u64))).collect())),
            1 => (prop_oneof![Just(255usize), Just(256usize), Just(257usize), Just(65535usize), Just(65536usize), 65usize..70000], any::<u8>()).prop_map(|(n, b)| Case::VecU8((0..n).map(|i| b.wrapping_add(i as u8)).collect())),
            2 => proptest::collection::vec(usize_val(), 0..20).prop_map(Case::VecUsize),
            1 => usize_val().prop_map(Case::Usize),
            5 => (any_wit(), any::<u16>(), any::<u8>()).prop_map(|(w, cut, extend)| Case::Witness { w, cut, extend }),
            2 => fx5.prop_map(Case::Values),
            1 => fx4.prop_map(Case::Identity),
            2 => (gens::fx(), usize_val(), gens::fx(), gens::fx(), gens::fx(), gens::bytes(3000)).prop_map(|(s, index, limit, mid, e, signal)| Case::ProveInput { s, index, limit, mid, e, signal }),
            1 => (gens::bytes(400), gens::bytes(3000)).prop_map(|(head, signal)| Case::VerifyInput { head, signal }),
        ]
        .boxed()
    }
    fn check(&self, _ctx: &Ctx, case: &Case) -> Outcome {
        let mut o = Outcome::new();
        let (label, nt) = match case {
            Case::Stream { items, .. } => ("stream-of-proving-requests", items.len() >= 2),
            Case::IdentityBytes(_) => ("identity-bytes", true),
            Case::Field(f) => ("field", leading_zero(f)),
            Case::VecFr(v) => ("vec_fr", v.is_empty() || v.iter().any(leading_zero)),
            Case::VecU8(v) => ("vec_u8", v.is_empty()),
            Case::VecUsize(v) => ("vec_usize", v.is_empty() || v.iter().any(|x| *x >= 1 << 32)),
            Case::Usize(u) => ("usize", *u >= 1 << 32),
            Case::Witness { w, .. } => ("witness", w.path.is_empty() || w.bits.is_empty() || [w.s, w.x, w.e].iter().any(leading_zero)),
            Case::Values(v) => ("proof_values", v.iter().any(leading_zero)),
            Case::Identity(v) => ("identity", v.iter().any(leading_zero)),
            Case::ProveInput { index, signal, .. } => ("prove_input", *index >= 1 << 32 || signal.len() == 0),
            Case::VerifyInput { signal, .. } => ("verify_input", signal.len() == 0),
        };
        o.label(label);
        o.nontrivial = nt;
        check_case(case, &mut o);
        o
    }
    fn fixed_part(&self, ctx: &Ctx, stats: &mut Stats) -> Option<(String, Option<Case>)> {
        // every truncation length and every 1..40-byte extension of a few witness encodings
        let pm1 = Fx(big_to_fr(&(p() - 1u32)));
        let wits = vec![
            Wit { s: Fx::from_u64(0), limit: Fx::from_u64(1), mid: Fx::from_u64(0), path: vec![], bits: vec![], x: Fx::from_u64(0), e: Fx::from_u64(0) },
            Wit { s: pm1, limit: Fx::from_u64(65536), mid: Fx::from_u64(65535), path: vec![pm1; 20], bits: vec![1; 20], x: pm1, e: pm1 },
            Wit { s: Fx::from_u64(5), limit: Fx::from_u64(100), mid: Fx::from_u64(1), path: vec![Fx::from_u64(9); 3], bits: vec![0, 1, 255, 7], x: Fx::from_u64(3), e: Fx::from_u64(4) },
        ];
        for w in wits {
            let enc = w.encode();
            for cut in 0..enc.len() {
                stats.evaluations += 1;
                if let Ok(Ok(_)) = guarded(|| rln::protocol::deserialize_witness(&enc[..cut]).map(|_| ())) {
                    let c = Case::Witness { w: w.clone(), cut: ((cut << 16) / enc.len().max(1)) as u16, extend: 0 };
                    return Some((format!("deserialize_witness accepted an encoding truncated to {cut} of {} bytes", enc.len()), Some(c)));
                }
            }
            for ext in 1..=40usize {
                stats.evaluations += 1;
                let mut l = enc.clone();
                l.extend(std::iter::repeat(0u8).take(ext));
                if let Ok(Ok(_)) = guarded(|| rln::protocol::deserialize_witness(&l).map(|_| ())) {
                    let c = Case::Witness { w: w.clone(), cut: 0, extend: (ext - 1) as u8 };
                    return Some((format!("deserialize_witness accepted an encoding with {ext} trailing bytes"), Some(c)));
                }
            }
            let c = Case::Witness { w: w.clone(), cut: 0, extend: 0 };
            let mut out = self.check(ctx, &c);
            out.label("fixed-table");
            stats.record(&out, case_hash(&c), || self.sample_view(&c));
            if let Some(m) = out.fail {
                return Some((m, Some(c)));
            }
        }
        *stats.labels.entry("exhaustive-truncations-of-3-witnesses".into()).or_default() += 1;
        // the bytes the proving functions write: streams of requests into one writer
        use crate::props::c12::{Inval, Via};
        let reqs = crate::pipeline::draw(&crate::pipeline::req_strategy(300), ctx.seed, "c10-stream-req", ctx.tier.pick(3, 24));
        let item = || {
            (
                prop_oneof![Just(Via::Tree), Just(Via::Witness), Just(Via::RawProve)],
                prop_oneof![
                    4 => Just(Inval::Valid),
                    3 => (any::<u16>(), any::<u16>()).prop_map(|(a, d)| Inval::MidAboveBitRange(a, d)),
                    2 => (0u32..100_000).prop_map(Inval::LimitFarAbove),
                    1 => Just(Inval::MidEqLimit),
                    1 => any::<u16>().prop_map(Inval::TruncateAt),
                    1 => (any::<u8>(), any::<u8>()).prop_map(|(a, b)| Inval::BitValue(a, b)),
                ],
            )
        };
        let lists = crate::pipeline::draw(&proptest::collection::vec(item(), 2..5).boxed(), ctx.seed, "c10-stream-items", reqs.len());
        let canonical = vec![
            (Via::Witness, Inval::MidAboveBitRange(4464, 29_999)),
            (Via::Witness, Inval::Valid),
            (Via::Tree, Inval::LimitFarAbove(7)),
            (Via::Tree, Inval::Valid),
            (Via::RawProve, Inval::MidAboveBitRange(0, 0)),
            (Via::RawProve, Inval::Valid),
        ];
        // the canonical stream once per writer behaviour (everything at once, 1, 7, 33 bytes per call)
        let mut streams: Vec<Case> = (0u8..4).map(|io| Case::Stream { req: reqs[0].clone(), items: canonical.clone(), io: Some(io) }).collect();
        for (k, req) in reqs.into_iter().enumerate().skip(1) {
            streams.push(Case::Stream { req, items: lists[k].clone(), io: None });
        }
        streams.extend((0u8..ctx.tier.pick(4, 40)).map(Case::IdentityBytes));
        for c in streams {
            let mut out = self.check(ctx, &c);
            out.label("fixed-streams");
            stats.record(&out, case_hash(&c), || self.sample_view(&c));
            if let Some(m) = out.fail {
                return Some((m, Some(c)));
            }
        }
        None
    }
    fn sample_view(&self, case: &Case) -> serde_json::Value {
        match case {
            Case::Witness { w, cut, extend } => serde_json::json!({"Witness": {"s": w.s, "limit": w.limit, "mid": w.mid, "path_len": w.path.len(), "bits": w.bits, "cut": cut, "extend": extend}}),
            Case::Stream { req, items, .. } => serde_json::json!({"Stream": {"index": req.index, "limit": req.limit, "mid": req.mid, "items": format!("{items:?}")}}),
            Case::VecFr(v) if v.len() > 4 => serde_json::json!({"VecFr_len": v.len(), "first": v[0]}),
            c => serde_json::to_value(c).unwrap(),
        }
    }
}
