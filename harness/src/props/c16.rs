//! C16 — acknowledged tree updates survive reopen; storage failures are reported.
//!
//! Three kinds of run per generated (history, storage configuration, API surface):
//!  * no-fault: the history (with flush / flush+drop+reopen steps anywhere) against the ideal model,
//!    observed after every step, plus a forced final reopen and one more write;
//!  * fault enumeration: the same history re-run on a fresh directory with the storage adapter's
//!    injection hook armed at storage operation k, for every k the history performs (or a stratified
//!    subset), one-shot and sticky;
//!  * crash points: the history in a child process that aborts inside storage operation k; the parent
//!    reopens the directory.

use super::trees::*;
use crate::engine::*;
use crate::models::field::fr_to_big;
use crate::models::tree_model::{TreeModel, Verdict};
use ark_bn254::Fr;
use proptest::prelude::*;
use rln::pm_tree_adapter::{PmTree, PmtreeConfig};
use rln::public::RLN;
use serde::{Deserialize, Serialize};
use std::collections::{BTreeMap, BTreeSet};
use std::io::Cursor;
use std::path::PathBuf;
use std::str::FromStr;
use zerokit_utils::verif_hooks as hk;
use zerokit_utils::ZerokitMerkleTree;

pub struct C16;

#[derive(Clone, Copy, Debug, Serialize, Deserialize, PartialEq, Eq)]
pub struct StoreCfg {
    /// 0 absent, 1 = 10_000, 2 = 150_000, 3 = 2^30
    pub cache: u8,
    /// 0 absent, 1 = 1 ms, 2 = 12_000 ms
    pub flush_ms: u8,
    pub low_space: bool,
    pub compression: bool,
    /// 0 plain, 1 nested (parents do not exist), 2 space + non-ASCII
    pub path_style: u8,
}

impl StoreCfg {
    pub fn tree_config_json(&self, dir: &std::path::Path) -> String {
        let mut m = serde_json::Map::new();
        m.insert("path".into(), serde_json::Value::String(dir.to_string_lossy().to_string()));
        m.insert("temporary".into(), serde_json::Value::Bool(false));
        match self.cache {
            1 => m.insert("cache_capacity".into(), 10_000u64.into()),
            2 => m.insert("cache_capacity".into(), 150_000u64.into()),
            3 => m.insert("cache_capacity".into(), (1u64 << 30).into()),
            _ => None,
        };
        match self.flush_ms {
            1 => m.insert("flush_every_ms".into(), 1u64.into()),
            2 => m.insert("flush_every_ms".into(), 12_000u64.into()),
            _ => None,
        };
        m.insert("mode".into(), serde_json::Value::String(if self.low_space { "LowSpace" } else { "HighThroughput" }.into()));
        if self.compression {
            m.insert("use_compression".into(), serde_json::Value::Bool(true));
        }
        serde_json::Value::Object(m).to_string()
    }
    pub fn dir(&self, base: &std::path::Path) -> PathBuf {
        match self.path_style {
            1 => base.join("a").join("b").join("db"),
            2 => base.join("tree db é"),
            _ => base.join("db"),
        }
    }
}

#[derive(Clone, Copy, Debug, Serialize, Deserialize, PartialEq, Eq)]
pub enum Api {
    Trait,
    Rln,
}

#[derive(Clone, Copy, Debug, Serialize, Deserialize, PartialEq, Eq)]
pub enum Mode {
    NoFault,
    /// every storage operation position (stratified when the history performs many)
    FaultAll { sticky: bool },
    FaultAt { sel: u16, sticky: bool },
    Crash { sel: u16 },
}

#[derive(Clone, Debug, Serialize, Deserialize)]
pub struct Case {
    pub depth: usize,
    pub cfg: StoreCfg,
    pub api: Api,
    pub ops: Vec<Op>,
    pub mode: Mode,
}

fn estr<E: std::fmt::Display>(e: E) -> String {
    e.to_string()
}

const FOCUS: Focus = Focus { leaves: true, roots: true, mark: true, flags: false, metadata: true };

pub struct Store {
    pub api: Api,
    pub depth: usize,
    pub dir: PathBuf,
    pub cfg: StoreCfg,
    pub b: Option<Box<dyn Backend>>,
}

impl Store {
    pub fn new(case: &Case, base: &std::path::Path) -> Store {
        Store { api: case.api, depth: case.depth, dir: case.cfg.dir(base), cfg: case.cfg, b: None }
    }
    pub fn open(&mut self) -> Result<Result<(), String>, Panicked> {
        let tc = self.cfg.tree_config_json(&self.dir);
        let depth = self.depth;
        match self.api {
            Api::Trait => {
                let r = guarded(|| {
                    let cfg = PmtreeConfig::from_str(&tc).map_err(estr)?;
                    PmTree::new(depth, Fr::from(0u64), cfg).map_err(estr)
                })?;
                Ok(r.map(|t| {
                    self.b = Some(Box::new(PmPersistent { tree: Some(t), depth, path: self.dir.clone(), extra: String::new() }));
                }))
            }
            Api::Rln => {
                let json = format!("{{\"tree_config\": {tc}}}");
                let r = guarded(|| RLN::new(depth, Cursor::new(json)).map_err(estr))?;
                Ok(r.map(|rln| {
                    self.b = Some(Box::new(RlnBackend { rln, depth }));
                }))
            }
        }
    }
    pub fn close(&mut self) {
        self.b = None;
    }
    pub fn bm(&mut self) -> &mut dyn Backend {
        self.b.as_mut().unwrap().as_mut()
    }
}

/// known-finding classes that make an operation wrong regardless of persistence are skipped here
/// too (they are judged, and listed, under C06/C08/C15); the reopen class concerns the empty-position
/// flags only, which this property does not observe.
fn skipped_known(ctx: &Ctx, kind: BackendKind, rop: &ROp, m: &TreeModel) -> Vec<String> {
    classify(kind, rop, m).into_iter().filter(|s| !s.contains("/reopen/") && ctx.is_known(s)).collect()
}

// ---------------------------------------------------------------------------------------------
// no-fault run
// ---------------------------------------------------------------------------------------------

pub struct Trace {
    /// storage operations performed up to and including creation / each history step
    pub after_open: u64,
    pub after_step: Vec<u64>,
    pub total: u64,
    pub rejected_config: bool,
}

const FOREIGN_ACCEPTED: &str = "\u{1}a request with another configuration was accepted for the location";

fn reopen_checked(st: &mut Store, m: &TreeModel, what: &str) -> Result<u64, String> {
    match st.bm().apply(&ROp::Flush) {
        Some(Ok(Ok(()))) => {}
        other => return Err(format!("{what}: flush failed without an injected fault: {:?}", other.map(|r| r.map_err(|p| p.0)))),
    }
    st.close();
    // Between the two sessions somebody may ask for the same location with a configuration the
    // library refuses (a temporary tree on an existing path; compression, which this build of the
    // storage engine lacks; a document that is not a configuration). A refused request is part of the
    // history and must leave what is stored alone. Should such a request be *accepted*, the location
    // was legitimately handed to another owner and nothing more is judged for this case.
    let variant = (m.mark + st.depth + what.len()) % 5;
    if variant != 0 {
        let mut tc: serde_json::Value = serde_json::from_str(&st.cfg.tree_config_json(&st.dir)).unwrap();
        match variant {
            1 | 2 => tc["temporary"] = serde_json::Value::Bool(true),
            3 => tc["use_compression"] = serde_json::Value::Bool(true),
            _ => {}
        }
        // variant 4: a document cut in the middle (not a configuration at all)
        let tcs = if variant == 4 { let t = tc.to_string(); t[..t.len() / 2].to_string() } else { tc.to_string() };
        let depth = st.depth;
        let accepted = if variant == 2 || (variant > 2 && st.api == Api::Rln) {
            let json = format!("{{\"tree_config\": {tcs}}}");
            matches!(guarded(|| RLN::new(depth, Cursor::new(json)).map(|_| ()).map_err(estr)), Ok(Ok(())))
        } else {
            matches!(guarded(|| PmtreeConfig::from_str(&tcs).map_err(estr).and_then(|c| PmTree::new(depth, Fr::from(0u64), c).map(|_| ()).map_err(estr))), Ok(Ok(())))
        };
        // an accepted non-temporary request is simply one more (empty) session on the location
        if accepted && variant <= 2 {
            return Err(FOREIGN_ACCEPTED.into());
        }
    }
    match st.open() {
        Ok(Ok(())) => {}
        Ok(Err(e)) => return Err(format!("{what}: reopening the location failed: {e}")),
        Err(p) => return Err(format!("{what}: reopening the location panicked: {}", p.0)),
    }
    compare(st.bm(), m, FOCUS, &[]).map_err(|e| format!("{what}: after flush + drop + reopen: {e}"))
}

pub fn run_nofault(ctx: &Ctx, case: &Case, base: &std::path::Path, o: &mut Outcome) -> Option<Trace> {
    let _ = std::fs::remove_dir_all(base);
    hk::tl_reset();
    let mut st = Store::new(case, base);
    match st.open() {
        Ok(Ok(())) => {}
        Ok(Err(e)) => {
            if case.cfg.compression {
                // the storage engine is built without its compression feature: the configuration is
                // refused at open, nothing is created
                o.label("config-rejected/compression");
                return Some(Trace { after_open: 0, after_step: vec![], total: 0, rejected_config: true });
            }
            vfail!(o, "opening a fresh location failed: {e} (config {})", case.cfg.tree_config_json(&st.dir));
            return None;
        }
        Err(p) => {
            vfail!(o, "opening a fresh location panicked: {}", p.0);
            return None;
        }
    }
    let after_open = hk::tl_ops();
    let mut m = TreeModel::new(case.depth, Fr::from(0u64));
    if let Err(e) = compare(st.bm(), &m, FOCUS, &[]) {
        vfail!(o, "fresh persistent tree: {e}");
        return None;
    }
    let mut after_step = vec![];
    let mut reopened = false;
    let mut wrote_after_reopen = false;
    for (k, op) in case.ops.iter().enumerate() {
        if matches!(op, Op::Reopen) {
            match reopen_checked(&mut st, &m, &format!("step {k}")) {
                Ok(n) => o.evals += n,
                Err(e) if e == FOREIGN_ACCEPTED => {
                    o.label("foreign-request-accepted/case-ends");
                    return Some(Trace { after_open: 0, after_step: vec![], total: 0, rejected_config: true });
                }
                Err(e) => {
                    vfail!(o, "{e}");
                    return None;
                }
            }
            reopened = true;
        } else {
            match step(ctx, st.bm(), &mut m, op, FOCUS, false) {
                Ok(rep) => {
                    o.evals += rep.evals;
                    for s in rep.skipped_known {
                        if !s.contains("/reopen/") {
                            o.exclude(s);
                        }
                    }
                    if reopened && !matches!(op, Op::Flush) {
                        wrote_after_reopen = true;
                    }
                }
                Err(e) => {
                    vfail!(o, "depth {} step {k}{}: {e}", case.depth, if reopened { " (after a reopen)" } else { "" });
                    return None;
                }
            }
        }
        after_step.push(hk::tl_ops());
    }
    // forced final reopen, then the reopened tree must keep behaving like the ideal tree
    match reopen_checked(&mut st, &m, "final") {
        Ok(n) => o.evals += n,
        Err(e) if e == FOREIGN_ACCEPTED => {
            o.label("foreign-request-accepted/case-ends");
            return Some(Trace { after_open: 0, after_step: vec![], total: 0, rejected_config: true });
        }
        Err(e) => {
            vfail!(o, "{e}");
            return None;
        }
    }
    for op in [Op::Append(3), Op::Set(Pos { kind: PosKind::Zero, raw: 0 }, 4), Op::Delete(Pos { kind: PosKind::MarkMinus1, raw: 0 })] {
        if let Err(e) = step(ctx, st.bm(), &mut m, &op, FOCUS, false) {
            vfail!(o, "after the final reopen: {e}");
            return None;
        }
    }
    match reopen_checked(&mut st, &m, "second final") {
        Ok(n) => o.evals += n,
        Err(e) if e == FOREIGN_ACCEPTED => {
            o.label("foreign-request-accepted/case-ends");
            return Some(Trace { after_open: 0, after_step: vec![], total: 0, rejected_config: true });
        }
        Err(e) => {
            vfail!(o, "{e}");
            return None;
        }
    }
    // K = storage operations of creation + history + one flush (the forced tail above is not re-run
    // under faults)
    let total = after_step.last().copied().unwrap_or(after_open) + 1;
    st.close();
    if reopened {
        o.label("history-with-reopen");
    }
    if wrote_after_reopen {
        o.label("write-after-reopen");
    }
    Some(Trace { after_open, after_step, total, rejected_config: false })
}

// ---------------------------------------------------------------------------------------------
// tainted comparison (after a failed / interrupted operation)
// ---------------------------------------------------------------------------------------------

#[derive(Default, Clone)]
pub struct Taint {
    pub pos: BTreeMap<usize, Vec<Fr>>,
    pub mark_hi: usize,
    pub meta: Vec<Vec<u8>>,
    pub any: bool,
}

impl Taint {
    fn add_pos(&mut self, cap: usize, i: usize, v: Fr) {
        if i < cap {
            self.pos.entry(i).or_default().push(v);
            self.mark_hi = self.mark_hi.max(i + 1);
        }
    }
    /// everything the request could legitimately have written before it failed
    pub fn add_op(&mut self, rop: &ROp, m: &TreeModel, observed_mark: usize) {
        self.any = true;
        let cap = m.cap();
        let zero = Fr::from(0u64);
        match rop {
            ROp::Set(i, v) => self.add_pos(cap, *i, *v),
            ROp::Delete(i) => {
                if *i < cap {
                    self.pos.entry(*i).or_default().push(zero);
                }
            }
            ROp::Append(v) => {
                self.add_pos(cap, m.mark, *v);
                self.add_pos(cap, observed_mark, *v);
            }
            ROp::SetRange(s, vs) => {
                for (k, v) in vs.iter().enumerate() {
                    if let Some(i) = s.checked_add(k) {
                        self.add_pos(cap, i, *v);
                    }
                }
            }
            ROp::Batch(s, vs, rem) => {
                for r in rem {
                    if *r < cap {
                        self.pos.entry(*r).or_default().push(zero);
                    }
                }
                for (k, v) in vs.iter().enumerate() {
                    if let Some(i) = s.checked_add(k) {
                        self.add_pos(cap, i, *v);
                    }
                }
            }
            ROp::SetMetadata(b) => self.meta.push(b.clone()),
            _ => {}
        }
    }
}

/// leaves / mark / metadata of a reopened tree against sets of admissible values.
/// `snaps`: the acknowledged states the store may legitimately be in (last = newest).
pub fn compare_tainted(b: &mut dyn Backend, snaps: &[&TreeModel], t: &Taint) -> Result<u64, String> {
    let newest = *snaps.last().unwrap();
    let name = b.kind().name();
    let g = guarded(|| -> Result<u64, String> {
        let mut n = 0;
        let got = b.leaves_set();
        let lo = snaps.iter().map(|m| m.mark).min().unwrap();
        let hi = snaps.iter().map(|m| m.mark).max().unwrap().max(t.mark_hi);
        if got < lo || got > hi {
            return Err(format!("{name}: leaves_set() = {got} after reopen, acknowledged high-water mark is {lo} (at most {hi} with the interrupted request)"));
        }
        n += 1;
        let mut probes: BTreeSet<usize> = BTreeSet::new();
        for m in snaps {
            probes.extend(probe_positions(m, &[]));
        }
        probes.extend(t.pos.keys().copied());
        for i in probes {
            let got = b.get(i).map_err(|e| format!("{name}: get({i}) failed after reopen: {e}"))?;
            let mut allowed: Vec<Fr> = snaps.iter().map(|m| m.get(i).unwrap()).collect();
            if let Some(v) = t.pos.get(&i) {
                allowed.extend(v.iter().copied());
            }
            if !allowed.contains(&got) {
                return Err(format!(
                    "{name}: after reopen get({i}) = {}, but the acknowledged value is {}{}",
                    fr_to_big(&got),
                    fr_to_big(&newest.get(i).unwrap()),
                    if t.pos.contains_key(&i) || snaps.len() > 1 { " (position also touched by the interrupted / unflushed requests; none of their values matches either)" } else { " (position not touched by the failed request)" }
                ));
            }
            n += 1;
        }
        let got = b.metadata().map_err(|e| format!("{name}: metadata() failed after reopen: {e}"))?;
        let mut allowed: Vec<Vec<u8>> = snaps.iter().map(|m| m.metadata.clone()).collect();
        allowed.extend(t.meta.iter().cloned());
        if !allowed.contains(&got) {
            return Err(format!("{name}: after reopen metadata() = {got:?}, acknowledged metadata is {:?}", newest.metadata));
        }
        Ok(n + 1)
    });
    match g {
        Ok(r) => r,
        Err(p) => Err(format!("{name}: observation after reopen panicked: {}", p.0)),
    }
}

// ---------------------------------------------------------------------------------------------
// fault run
// ---------------------------------------------------------------------------------------------

/// Apply one (non-reopen) operation without judging its functional result (the no-fault run does
/// that); returns whether it was acknowledged.
enum Applied {
    Skipped(Vec<String>),
    NoSuchOp,
    Ok,
    Err(String),
    Panic(String),
}

fn apply_plain(ctx: &Ctx, st: &mut Store, m: &TreeModel, rop: &ROp) -> Applied {
    let kind = st.bm().kind();
    let known = skipped_known(ctx, kind, rop, m);
    if !known.is_empty() {
        return Applied::Skipped(known);
    }
    match st.bm().apply(rop) {
        None => Applied::NoSuchOp,
        Some(Ok(Ok(()))) => Applied::Ok,
        Some(Ok(Err(e))) => Applied::Err(e),
        Some(Err(p)) => Applied::Panic(p.0),
    }
}

fn advance(m: &mut TreeModel, rop: &ROp) {
    let mut next = m.clone();
    if rop.apply_model(&mut next) != Verdict::Rejected {
        *m = next;
    }
}

/// `k` storage operations succeed, the next one fails (and, when sticky, every later one too).
pub fn run_fault(ctx: &Ctx, case: &Case, base: &std::path::Path, k: u64, sticky: bool, o: &mut Outcome) -> Result<&'static str, String> {
    let _ = std::fs::remove_dir_all(base);
    hk::tl_reset();
    hk::tl_arm(k as i64, sticky, false);
    let mut st = Store::new(case, base);
    let opened = st.open();
    if hk::tl_fired() > 0 {
        hk::tl_disarm();
        return match opened {
            Ok(Err(_)) => Ok("fault-in-create"),
            Ok(Ok(())) => Err(format!("storage write {k} failed while the tree was being created, but creation reported success")),
            Err(p) => Err(format!("storage write {k} failed while the tree was being created: panic instead of an error: {}", p.0)),
        };
    }
    match opened {
        Ok(Ok(())) => {}
        Ok(Err(e)) => {
            hk::tl_disarm();
            return Err(format!("opening a fresh location failed without an injected fault: {e}"));
        }
        Err(p) => {
            hk::tl_disarm();
            return Err(format!("opening a fresh location panicked: {}", p.0));
        }
    }
    let mut m = TreeModel::new(case.depth, Fr::from(0u64));
    let mut taint = Taint::default();
    let mut class = "fault-not-reached";
    let mut retried = false;
    let mut reopened_before = false;
    for (idx, op) in case.ops.iter().enumerate() {
        let fired_before = hk::tl_fired();
        let ops_before = hk::tl_ops();
        let rop = op.resolve(&m);
        let observed_mark = st.bm().leaves_set();
        let desc = rop.describe();
        let res = if matches!(rop, ROp::Reopen) {
            // flush (a storage operation), drop, open
            match st.bm().apply(&ROp::Flush) {
                Some(Ok(Ok(()))) => {
                    st.close();
                    match st.open() {
                        Ok(Ok(())) => Applied::Ok,
                        Ok(Err(e)) => Applied::Err(format!("reopen: {e}")),
                        Err(p) => Applied::Panic(p.0),
                    }
                }
                Some(Ok(Err(e))) => Applied::Err(e),
                Some(Err(p)) => Applied::Panic(p.0),
                None => Applied::NoSuchOp,
            }
        } else {
            apply_plain(ctx, &mut st, &m, &rop)
        };
        let fired = hk::tl_fired() > fired_before;
        if matches!(rop, ROp::Reopen) {
            reopened_before = true;
        }
        if st.b.is_none() {
            // a reopen that failed: nothing left to drive; the final phase opens again
            hk::tl_disarm();
            if !fired {
                return Err(format!("step {idx} {desc}: reopening failed without an injected fault"));
            }
        }
        match res {
            Applied::Skipped(s) => {
                for x in s {
                    o.exclude(x);
                }
            }
            Applied::NoSuchOp => {}
            Applied::Ok => {
                if fired {
                    hk::tl_disarm();
                    return Err(format!(
                        "step {idx} {desc}: storage operation {} of the history failed (injected), but the call reported success",
                        k + 1
                    ));
                }
                advance(&mut m, &rop);
            }
            Applied::Err(e) => {
                // a request whose very first storage operation failed has written nothing: in this
                // session every observation — the empty-position list included — must be what it was
                // (the flags of a reopened tree are a known finding, so they are left out after a reopen)
                if fired && k == ops_before && st.b.is_some() {
                    let focus = Focus { leaves: true, roots: true, mark: true, flags: !reopened_before, metadata: true };
                    if let Err(x) = compare(st.bm(), &m, focus, &[]) {
                        hk::tl_disarm();
                        return Err(format!("step {idx} {desc}: the first storage operation of the request failed (nothing was written, the call returned Err), yet the state changed: {x}"));
                    }
                }
                // every other one-shot fault position: the caller retries the identical request once
                // the storage works again. If that retry is acknowledged, the request counts as applied
                // and nothing may remain of the half-done attempt (appends are not retried: a failed
                // append may already have advanced the in-memory leaf count, which the statement
                // leaves open)
                // known finding (external pmtree crate): a range / batch write that extends the leaf
                // count performs two storage operations (nodes, then the leaf count); the in-memory leaf
                // count is advanced before the second one, so when only that one fails a retry finds
                // nothing to do for the count and the stored count stays behind for good
                let extends = {
                    let mut next = m.clone();
                    rop.apply_model(&mut next) != Verdict::Rejected && next.mark > m.mark
                };
                let in_count_put = matches!(rop, ROp::SetRange(..) | ROp::Batch(..)) && extends && k >= ops_before + 1;
                let kf_sig = format!("{}/fault/batch-leaf-count-put/retry", st.bm().kind().name());
                let skip_retry = in_count_put && ctx.is_known(&kf_sig);
                if skip_retry && fired && !sticky && k % 2 == 0 {
                    o.exclude(kf_sig.clone());
                }
                if fired && !sticky && k % 2 == 0 && !skip_retry && !matches!(rop, ROp::Append(_) | ROp::Reopen) {
                    if let Applied::Ok = apply_plain(ctx, &mut st, &m, &rop) {
                        advance(&mut m, &rop);
                        class = "fault-then-acknowledged-retry";
                        retried = true;
                        continue;
                    }
                }
                if fired {
                    taint.add_op(&rop, &m, observed_mark);
                    class = match &rop {
                        ROp::SetRange(_, v) if v.len() >= 2 => "fault-in-range-write",
                        ROp::Batch(..) => "fault-in-batch",
                        ROp::Flush | ROp::Reopen => "fault-in-flush",
                        ROp::SetMetadata(_) => "fault-in-metadata",
                        _ => "fault-in-single-write",
                    };
                    let _ = e;
                }
                // an Err without a fault: the request was refused (out of range, ...): nothing changes
            }
            Applied::Panic(p) => {
                if fired {
                    hk::tl_disarm();
                    return Err(format!("step {idx} {desc}: storage operation {} failed (injected) and the call panicked instead of reporting an error: {p}", k + 1));
                }
                // a panic without a fault was already judged by the no-fault run (tolerated there only
                // when the request has no effect and the state is unchanged): treated like a refusal
            }
        }
        if taint.any && !sticky {
            break;
        }
        if st.b.is_none() {
            break;
        }
    }
    // final phase: storage works again; flush, drop, reopen, compare
    hk::tl_disarm();
    if st.b.is_some() {
        match st.bm().apply(&ROp::Flush) {
            Some(Ok(Ok(()))) => {}
            other => return Err(format!("flush after the fault was cleared failed: {:?}", other.map(|r| r.map_err(|p| p.0)))),
        }
        st.close();
    }
    match st.open() {
        Ok(Ok(())) => {}
        Ok(Err(e)) => return Err(format!("reopening after the fault failed: {e}")),
        Err(p) => return Err(format!("reopening after the fault panicked: {}", p.0)),
    }
    let n = if taint.any {
        compare_tainted(st.bm(), &[&m], &taint).map_err(|e| format!("fault at storage operation {} ({class}{}): {e}", k + 1, if sticky { ", sticky" } else { "" }))?
    } else {
        compare(st.bm(), &m, FOCUS, &[]).map_err(|e| {
            if retried {
                format!("storage operation {} failed, the identical request was retried and acknowledged, the rest of the history ran without faults; after flush + reopen: {e}", k + 1)
            } else {
                format!("fault position {} beyond the history: {e}", k + 1)
            }
        })?
    };
    o.evals += n;
    st.close();
    Ok(class)
}

// ---------------------------------------------------------------------------------------------
// crash run (child process aborts inside storage operation k)
// ---------------------------------------------------------------------------------------------

/// child side: `vcheck c16-child <case.json> <k> <dir>`; prints one line per step.
pub fn child_main(case_path: &str, k: u64, base: &str) -> i32 {
    let ctx_known = KnownFindings::load();
    let ctx = Ctx { id: "C16".into(), tier: Tier::Quick, seed: 0, known: ctx_known, strict: false, tmpdir: PathBuf::from(base) };
    let case: Case = match load_replay(std::path::Path::new(case_path)) {
        Ok(c) => c,
        Err(e) => {
            println!("BAD {e}");
            return 3;
        }
    };
    hk::tl_reset();
    hk::tl_arm(k as i64, false, true);
    let mut st = Store::new(&case, std::path::Path::new(base));
    match st.open() {
        Ok(Ok(())) => println!("OPEN ok"),
        _ => {
            println!("OPEN err");
            return 0;
        }
    }
    let mut m = TreeModel::new(case.depth, Fr::from(0u64));
    for (idx, op) in case.ops.iter().enumerate() {
        let rop = op.resolve(&m);
        println!("S {idx}");
        let res = if matches!(rop, ROp::Reopen) {
            match st.bm().apply(&ROp::Flush) {
                Some(Ok(Ok(()))) => {
                    st.close();
                    match st.open() {
                        Ok(Ok(())) => Applied::Ok,
                        _ => {
                            println!("R {idx} fatal");
                            return 4;
                        }
                    }
                }
                _ => Applied::Err("flush".into()),
            }
        } else {
            apply_plain(&ctx, &mut st, &m, &rop)
        };
        match res {
            Applied::Ok => {
                advance(&mut m, &rop);
                println!("R {idx} ok");
            }
            Applied::Err(_) => println!("R {idx} err"),
            Applied::Skipped(_) | Applied::NoSuchOp => println!("R {idx} skip"),
            // judged by the parent's no-fault run (tolerated only for requests without effect)
            Applied::Panic(_) => println!("R {idx} err"),
        }
    }
    hk::tl_disarm();
    match st.bm().apply(&ROp::Flush) {
        Some(Ok(Ok(()))) => println!("DONE"),
        _ => println!("DONE flush-err"),
    }
    0
}

pub fn run_crash(ctx: &Ctx, case: &Case, base: &std::path::Path, k: u64, o: &mut Outcome) -> Result<&'static str, String> {
    let _ = std::fs::remove_dir_all(base);
    let _ = std::fs::create_dir_all(base);
    let case_file = base.join("case.json");
    std::fs::write(&case_file, serde_json::to_string(&serde_json::json!({"case": case})).unwrap()).map_err(|e| e.to_string())?;
    let store_base = base.join("store");
    let exe = std::env::current_exe().map_err(|e| e.to_string())?;
    let out = std::process::Command::new(exe)
        .arg("c16-child")
        .arg(&case_file)
        .arg(k.to_string())
        .arg(&store_base)
        .env("TMPDIR", base)
        .stdin(std::process::Stdio::null())
        .stderr(std::process::Stdio::null())
        .output()
        .map_err(|e| format!("cannot start child: {e}"))?;
    let text = String::from_utf8_lossy(&out.stdout).to_string();
    use std::os::unix::process::ExitStatusExt;
    let aborted = out.status.signal().is_some();
    if !aborted && out.status.code() != Some(0) {
        return Err(format!("INCONCLUSIVE-CHILD: child exited with {:?}: {}", out.status.code(), truncate(&text, 300)));
    }
    // reconstruct what was acknowledged
    let mut opened = false;
    let mut results: BTreeMap<usize, String> = BTreeMap::new();
    let mut started: Option<usize> = None;
    let mut done = false;
    for line in text.lines() {
        let mut it = line.split_whitespace();
        match it.next() {
            Some("OPEN") => opened = it.next() == Some("ok"),
            Some("S") => started = it.next().and_then(|x| x.parse().ok()),
            Some("R") => {
                if let (Some(i), Some(r)) = (it.next().and_then(|x| x.parse::<usize>().ok()), it.next()) {
                    results.insert(i, r.to_string());
                }
            }
            Some("DONE") => done = true,
            _ => {}
        }
    }
    if !opened {
        return Ok("crash-in-create");
    }
    let mut m = TreeModel::new(case.depth, Fr::from(0u64));
    // states since the last acknowledged flush
    let mut snaps: Vec<TreeModel> = vec![m.clone()];
    let mut taint = Taint::default();
    let mut class = "crash-after-history";
    for (idx, op) in case.ops.iter().enumerate() {
        let rop = op.resolve(&m);
        match results.get(&idx).map(|s| s.as_str()) {
            Some("ok") => {
                advance(&mut m, &rop);
                if matches!(rop, ROp::Flush | ROp::Reopen) {
                    snaps.clear();
                }
                snaps.push(m.clone());
            }
            Some(_) => {}
            None => {
                if started == Some(idx) {
                    // in flight when the process died
                    taint.add_op(&rop, &m, m.mark);
                    class = match &rop {
                        ROp::SetRange(..) | ROp::Batch(..) => "crash-in-multi-write",
                        ROp::Flush | ROp::Reopen => "crash-in-flush",
                        _ => "crash-in-single-write",
                    };
                }
                break;
            }
        }
    }
    if done {
        snaps = vec![m.clone()];
    }
    let mut st = Store::new(case, &store_base);
    hk::tl_reset();
    match st.open() {
        Ok(Ok(())) => {}
        Ok(Err(e)) => return Err(format!("{class} at storage operation {}: reopening the location failed: {e}", k + 1)),
        Err(p) => return Err(format!("{class} at storage operation {}: reopening the location panicked: {}", k + 1, p.0)),
    }
    let refs: Vec<&TreeModel> = snaps.iter().collect();
    let n = compare_tainted(st.bm(), &refs, &taint).map_err(|e| format!("{class} at storage operation {} (process aborted{}): {e}", k + 1, if aborted { "" } else { ": no, ran to completion" }))?;
    o.evals += n;
    st.close();
    let _ = ctx;
    Ok(if aborted { class } else { "crash-point-beyond-history" })
}

// ---------------------------------------------------------------------------------------------
// property
// ---------------------------------------------------------------------------------------------

fn op_c16() -> BoxedStrategy<Op> {
    prop_oneof![
        6 => (pos_any(), 0u8..POOL as u8).prop_map(|(p, v)| Op::Set(p, v)),
        2 => pos_any().prop_map(Op::Delete),
        4 => (0u8..POOL as u8).prop_map(Op::Append),
        4 => (pos_any(), vals(6)).prop_map(|(p, v)| Op::SetRange(p, v)),
        3 => op_batch(),
        2 => proptest::collection::vec(any::<u8>(), 1..40).prop_map(Op::SetMetadata),
        1 => Just(Op::SetMetadata(vec![])),
        1 => (prop_oneof![Just(4096usize), Just(65536usize), 1000usize..200_000], any::<u8>()).prop_map(|(n, b)| Op::SetMetadata((0..n).map(|i| b.wrapping_add((i % 251) as u8)).collect())),
        2 => Just(Op::Flush),
        2 => Just(Op::Reopen),
    ]
    .boxed()
}

fn cfg_strategy() -> BoxedStrategy<StoreCfg> {
    (0u8..4, 0u8..3, any::<bool>(), prop_oneof![9 => Just(false), 1 => Just(true)], prop_oneof![6 => Just(0u8), 2 => Just(1u8), 2 => Just(2u8)])
        .prop_map(|(cache, flush_ms, low_space, compression, path_style)| StoreCfg { cache, flush_ms, low_space, compression, path_style })
        .boxed()
}

fn fault_positions(trace: &Trace, limit: usize) -> Vec<u64> {
    let total = trace.total;
    if total as usize <= limit {
        return (0..total).collect();
    }
    // stratified: first/last storage operation of every step, creation, and an even spread
    let mut v: BTreeSet<u64> = BTreeSet::new();
    v.insert(0);
    v.insert(trace.after_open.saturating_sub(1));
    let mut prev = trace.after_open;
    for &a in &trace.after_step {
        if a > prev {
            v.insert(prev);
            v.insert(a - 1);
            v.insert(prev + (a - prev) / 2);
        }
        prev = a;
    }
    let mut out: Vec<u64> = v.into_iter().filter(|x| *x < total).collect();
    if out.len() > limit {
        let step = out.len() as f64 / limit as f64;
        out = (0..limit).map(|i| out[(i as f64 * step) as usize]).collect();
    } else {
        let missing = limit - out.len();
        for i in 0..missing {
            out.push((i as u64 * total) / missing.max(1) as u64);
        }
        out.sort();
        out.dedup();
    }
    out
}

impl Property for C16 {
    type Case = Case;
    fn id(&self) -> &'static str {
        "C16"
    }
    fn level(&self) -> &'static str {
        "fault_enumeration"
    }
    fn rule(&self) -> String {
        "generated (history over {set, delete, append, set_range, batch, set_metadata, flush, flush+drop+reopen}, storage configuration {cache size, flush period, mode, compression, path shape}, API surface {PmTree trait, RLN byte API}, depth 3..6/10/20). \
         Every case: no-fault run against the ideal model with observation after every step, forced final reopen + three more operations + reopen; in four of five reopen steps a request the library refuses is made for the same location between the two sessions (a temporary tree on the existing path, through the configuration parser or RLN::new; compression; a malformed configuration) and must leave what is stored alone. \
         FaultAll/FaultAt: the history is re-run on a fresh directory with the storage adapter hook failing storage operation k+1 (one-shot or sticky) for every k < K (K counted by the hook in the no-fault run; stratified to a fixed maximum when K is large): the call in which the failure fires must return Err (not Ok, not panic), and when it was the request's first storage operation (nothing written) every in-session observation incl. the empty-position list must be unchanged; at every other one-shot position the identical request is retried (appends excepted) and, if acknowledged, the rest of the history runs and the reopened tree must equal the ideal tree completely (root included); otherwise, after clearing the fault, flush, drop and reopen every position holds its acknowledged value (positions targeted by the failed request: acknowledged or requested value), leaves_set >= acknowledged mark, metadata acknowledged or requested. \
         Crash: the history runs in a child process that abort()s inside storage operation k+1; after reopening, every position holds a value it had at some acknowledged state since the last acknowledged flush (or the interrupted request's value). \
         evaluations = observations compared; one case = one history with all its fault/crash runs. \
         non-trivial = (history with a reopen and a later write) or (a fault / crash that fired inside a range write, batch, flush or metadata write); distinct by case content".into()
    }
    fn assumptions(&self) -> Vec<String> {
        vec![
            "faults are injected at the adapter boundary (SledDB::put / put_batch / close) through the cfg(zerokit_verif) hook; failures inside sled itself are represented by the error values the adapter already maps them to".into(),
            "after a failed request only leaves, leaf count and metadata are constrained; the root is not (the statement does not promise atomicity of the failing request)".into(),
            "crash = SIGABRT of the process inside a storage operation; power loss below the file system is out of reach".into(),
        ]
    }
    fn plan(&self, tier: Tier) -> Plan {
        Plan { shards: 16, cases_per_shard: tier.pick(40, 1500), max_shrink_iters: 256, watchdog_s: tier.pick(900, 10800) }
    }
    fn strategy(&self, tier: Tier, _shard: usize) -> BoxedStrategy<Case> {
        let depth = match tier {
            Tier::Quick => prop_oneof![10 => 3usize..=6, 1 => Just(10usize)].boxed(),
            Tier::Thorough => prop_oneof![20 => 3usize..=6, 2 => Just(10usize), 1 => Just(20usize)].boxed(),
        };
        let mode = prop_oneof![
            2 => Just(Mode::NoFault),
            5 => any::<bool>().prop_map(|s| Mode::FaultAll { sticky: s }),
            2 => (any::<u16>(), any::<bool>()).prop_map(|(sel, sticky)| Mode::FaultAt { sel, sticky }),
            3 => any::<u16>().prop_map(|sel| Mode::Crash { sel }),
        ];
        let api = prop_oneof![4 => Just(Api::Trait), 1 => Just(Api::Rln)];
        (depth, cfg_strategy(), api, proptest::collection::vec(op_c16(), 1..14), mode)
            .prop_map(|(depth, cfg, api, mut ops, mode)| {
                if let Mode::Crash { sel } = mode {
                    // "every kind of mutation followed by a flush survives a crash": the history ends with
                    // one mutation (kind chosen by the selector), a flush, and one more single write
                    let z = |raw: u16| Pos { kind: PosKind::Uniform, raw };
                    let last = match sel % 7 {
                        0 => Op::Set(Pos { kind: PosKind::Zero, raw: 0 }, 3),
                        1 => Op::Append(4),
                        2 => Op::Delete(Pos { kind: PosKind::Zero, raw: 0 }),
                        3 => Op::SetRange(Pos { kind: PosKind::Zero, raw: 0 }, vec![1, 2]),
                        4 => Op::Batch(Pos { kind: PosKind::Zero, raw: 0 }, vec![], vec![Pos { kind: PosKind::Zero, raw: 0 }, z(9000)]),
                        5 => Op::SetMetadata(vec![7, 7, 7]),
                        _ => Op::SetRange(Pos { kind: PosKind::MarkMinus1, raw: 0 }, vec![5, 1]),
                    };
                    ops.truncate(9);
                    // something to overwrite / remove first
                    ops.push(Op::SetRange(Pos { kind: PosKind::Zero, raw: 0 }, vec![1, 2, 3]));
                    ops.push(last);
                    ops.push(Op::Flush);
                    ops.push(Op::Set(Pos { kind: PosKind::CapMinus1, raw: 0 }, 2));
                }
                tame_for_depth20(depth, &mut ops);
                Case { depth, cfg, api, ops, mode }
            })
            .boxed()
    }
    fn check(&self, ctx: &Ctx, case: &Case) -> Outcome {
        let mut o = Outcome::new();
        let base = ctx.tmpdir.join(format!("c16-{:016x}-{:?}", case_hash(case), std::thread::current().id()));
        o.label(format!("api/{:?}", case.api));
        o.label(format!("depth/{}", case.depth));
        o.label(format!("cfg/cache{}-flush{}-{}", case.cfg.cache, case.cfg.flush_ms, if case.cfg.low_space { "lowspace" } else { "throughput" }));
        o.label(format!("cfg/path-style{}", case.cfg.path_style));
        let trace = run_nofault(ctx, case, &base.join("n"), &mut o);
        let Some(trace) = trace else {
            let _ = std::fs::remove_dir_all(&base);
            return o;
        };
        if o.labels.iter().any(|l| l == "write-after-reopen") {
            o.nontrivial = true;
        }
        if !trace.rejected_config {
            let limit = ctx.tier.pick(48, 400);
            let (ks, sticky, crash): (Vec<u64>, bool, bool) = match case.mode {
                Mode::NoFault => (vec![], false, false),
                Mode::FaultAll { sticky } => (fault_positions(&trace, limit), sticky, false),
                Mode::FaultAt { sel, sticky } => (vec![pick_index(sel, trace.total as usize + 2) as u64], sticky, false),
                Mode::Crash { sel } => {
                    // mostly inside the history; creation is a small fixed prefix
                    let lo = trace.after_open.saturating_sub(2);
                    let span = (trace.total - lo) as usize;
                    let a = lo + pick_index(sel, span) as u64;
                    let b = lo + pick_index(sel.wrapping_mul(40503), span) as u64;
                    // plus the first storage operations of the request that follows each flush / reopen
                    // step (a flush must have made durable whatever preceded it, however it was written)
                    let mut ks = vec![a, b];
                    for (i, op) in case.ops.iter().enumerate() {
                        if matches!(op, Op::Flush | Op::Reopen) && i + 1 < case.ops.len() {
                            if let Some(&after) = trace.after_step.get(i) {
                                ks.push(after);
                                ks.push(after + 1);
                            }
                        }
                    }
                    ks.sort();
                    ks.dedup();
                    ks.retain(|k| *k < trace.total);
                    ks.truncate(ctx.tier.pick(6, 12));
                    (ks, false, true)
                }
            };
            o.label(format!("mode/{}", match case.mode { Mode::NoFault => "no-fault", Mode::FaultAll { .. } => "fault-all", Mode::FaultAt { .. } => "fault-at", Mode::Crash { .. } => "crash" }));
            if matches!(case.mode, Mode::FaultAll { .. }) && ks.len() as u64 == trace.total {
                o.label("fault-positions-exhaustive-for-history");
            }
            for k in ks {
                let r = if crash { run_crash(ctx, case, &base.join("c"), k, &mut o) } else { run_fault(ctx, case, &base.join("f"), k, sticky, &mut o) };
                o.evals += 1;
                o.count(if crash { "crash_runs" } else { "fault_runs" }, 1);
                match r {
                    Ok(class) => {
                        o.label(class);
                        o.count(format!("run/{class}"), 1);
                        if matches!(class, "fault-in-range-write" | "fault-in-batch" | "fault-in-flush" | "fault-in-metadata" | "crash-in-multi-write" | "crash-in-flush" | "fault-then-acknowledged-retry") {
                            o.nontrivial = true;
                        }
                    }
                    Err(e) if e.starts_with("INCONCLUSIVE-CHILD") => {
                        if std::env::var("VERIF_DEBUG").is_ok() {
                            eprintln!("{e}");
                        }
                        o.label("crash-child-inconclusive")
                    }
                    Err(e) => {
                        vfail!(o, "depth {} api {:?} config {}: {e}", case.depth, case.api, case.cfg.tree_config_json(std::path::Path::new("<dir>")));
                        break;
                    }
                }
            }
        }
        hk::tl_reset();
        let _ = std::fs::remove_dir_all(&base);
        o
    }
    fn sample_view(&self, case: &Case) -> serde_json::Value {
        let mut mm = TreeModel::new(case.depth, Fr::from(0u64));
        let ops: Vec<String> = case.ops.iter().map(|op| { let r = op.resolve(&mm); r.apply_model(&mut mm); r.describe() }).collect();
        serde_json::json!({"depth": case.depth, "api": case.api, "cfg": case.cfg, "mode": case.mode, "ops": ops})
    }
}
