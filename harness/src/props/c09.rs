//! C09 — Poseidon and hash-to-field conform to their specifications for all inputs.

use crate::engine::*;
use crate::gens::{self, Bytes};
use crate::models::field::{big_to_le32, fr_to_big, Fx};
use crate::models::{codec_ref, formulas, keccak_ref, poseidon_ref};
use proptest::prelude::*;
use rln::ffi::Buffer;
use serde::{Deserialize, Serialize};

pub struct C09;

#[derive(Clone, Debug, Serialize, Deserialize)]
pub enum Case {
    Poseidon(Vec<Fx>),
    Keccak(Bytes),
    /// purity across calls: related inputs hashed back to back on one thread (s, s', s) where s' is s
    /// with one byte changed at a generated position (same length, long shared prefix or suffix)
    KeccakSeq { base: Bytes, at: u16, xor: u8 },
    /// the same for Poseidon: v, v with one element changed, v
    PoseidonSeq { v: Vec<Fx>, at: u8, other: Fx },
}

fn ffi_call(f: extern "C" fn(*const Buffer, *mut Buffer) -> bool, input: &[u8]) -> Option<Vec<u8>> {
    let inb = Buffer::from(input);
    let mut out = Buffer { ptr: std::ptr::null(), len: 0 };
    let ok = f(&inb as *const Buffer, &mut out as *mut Buffer);
    if !ok {
        return None;
    }
    Some(gens::ffi_take_output(out.ptr, out.len))
}

/// the same C call with ONE Buffer struct serving as input and as output (a C caller overwriting its
/// argument in place)
fn ffi_call_in_place(f: extern "C" fn(*const Buffer, *mut Buffer) -> bool, input: &[u8]) -> Option<Vec<u8>> {
    let mut b = Buffer::from(input);
    let p = &mut b as *mut Buffer;
    let ok = f(p as *const Buffer, p);
    if !ok {
        return None;
    }
    if b.ptr.is_null() || b.len == 0 {
        return Some(vec![]);
    }
    if b.ptr == input.as_ptr() {
        // still designating the caller's own input
        return Some(unsafe { std::slice::from_raw_parts(b.ptr, b.len) }.to_vec());
    }
    Some(gens::ffi_take_output(b.ptr, b.len))
}

pub fn check_poseidon(v: &[Fx], o: &mut Outcome) {
    let ins: Vec<_> = v.iter().map(|f| f.0).collect();
    let bigs: Vec<_> = v.iter().map(|f| f.big()).collect();
    let expect = poseidon_ref::poseidon(&bigs);
    let expect_bytes = big_to_le32(&expect).to_vec();
    // typed entry point, twice
    for round in 0..2 {
        match guarded(|| rln::hashers::poseidon_hash(&ins)) {
            Ok(got) => {
                if fr_to_big(&got) != expect {
                    vfail!(o, "poseidon_hash({v:?}) = {} but reference Poseidon gives {expect} (call {round})", fr_to_big(&got));
                    return;
                }
            }
            Err(p) => {
                vfail!(o, "poseidon_hash({v:?}) panicked: {}", p.0);
                return;
            }
        }
    }
    // byte-level entry point
    let enc = codec_ref::enc_vec_fr(&bigs);
    let mut sink = gens::Sink::new();
    let r = guarded(|| rln::public::poseidon_hash(gens::rd(&enc), &mut sink));
    let out = sink.data;
    match r {
        Ok(Ok(())) => {
            if out != expect_bytes {
                vfail!(o, "public::poseidon_hash bytes differ from reference for {v:?}: {out:?}");
                return;
            }
        }
        other => {
            vfail!(o, "public::poseidon_hash failed for {v:?}: {:?}", other.map(|r| r.map_err(|e| e.to_string())));
            return;
        }
    }
    // FFI entry point
    match guarded(|| ffi_call(rln::ffi::poseidon_hash, &enc)) {
        Ok(Some(b)) => {
            if b != expect_bytes {
                vfail!(o, "ffi::poseidon_hash bytes differ from reference for {v:?}: {b:?}");
            }
        }
        other => vfail!(o, "ffi::poseidon_hash failed for {v:?}: {other:?}"),
    }
    match guarded(|| ffi_call_in_place(rln::ffi::poseidon_hash, &enc)) {
        Ok(Some(b)) if b == expect_bytes => {}
        other => vfail!(o, "ffi::poseidon_hash called with one Buffer as input and output differs from the reference for {v:?}: {other:?}"),
    }
    o.evals = 4;
}

pub fn check_keccak(data: &[u8], o: &mut Outcome) {
    let expect = formulas::hash_to_field_ref(data);
    let expect_bytes = big_to_le32(&expect).to_vec();
    for round in 0..2 {
        match guarded(|| rln::hashers::hash_to_field(data)) {
            Ok(got) => {
                if fr_to_big(&got) != expect {
                    vfail!(o, "hash_to_field(len {}) = {} but Keccak-256 LE mod p gives {expect} (call {round})", data.len(), fr_to_big(&got));
                    return;
                }
            }
            Err(p) => {
                vfail!(o, "hash_to_field panicked: {}", p.0);
                return;
            }
        }
    }
    let mut sink = gens::Sink::new();
    let r = guarded(|| rln::public::hash(gens::rd(data), &mut sink));
    let out = sink.data;
    match r {
        Ok(Ok(())) => {
            if out != expect_bytes {
                vfail!(o, "public::hash bytes differ from reference for input of len {}", data.len());
                return;
            }
        }
        other => {
            vfail!(o, "public::hash failed: {:?}", other.map(|r| r.map_err(|e| e.to_string())));
            return;
        }
    }
    match guarded(|| ffi_call(rln::ffi::hash, data)) {
        Ok(Some(b)) => {
            if b != expect_bytes {
                vfail!(o, "ffi::hash bytes differ from reference for input of len {}", data.len());
            }
        }
        other => vfail!(o, "ffi::hash failed: {other:?}"),
    }
    match guarded(|| ffi_call_in_place(rln::ffi::hash, data)) {
        Ok(Some(b)) if b == expect_bytes => {}
        other => vfail!(o, "ffi::hash called with one Buffer as input and output differs from the reference for input of len {}: {:?}", data.len(), other.map(|b| b.map(|b| b.len()))),
    }
    o.evals = 4;
}

impl Property for C09 {
    type Case = Case;
    fn id(&self) -> &'static str {
        "C09"
    }
    fn rule(&self) -> String {
        "the library's generic Poseidon is first instantiated over BN254's base field (same bit length, same round parameters) and used once, before the first hash over the scalar field in this process; cases: vectors in Fr^n (n=1..8, boundary-weighted, incl. all-equal) and byte strings (block-edge lengths 135/136/137/271.., long patterns, lengths 2^k-1 / 2^k / 2^k+1 for k = 10..17 (20 in the thorough tier), 100000, 200000); \
         each compared on three entry points (typed, byte-level with readers handing out 1 / 7 / 33 bytes per call or everything at once and writers accepting as little, FFI with separate and with one shared Buffer struct) against the BigUint reference Poseidon / own Keccak sponge; the last 24 outputs handed out through the C interface are re-read after every later C call; KeccakSeq / PoseidonSeq: related inputs (equal length, one byte / one element changed, mostly near the end so that a long prefix is shared) hashed back to back on one thread in the order s, s', s, s' — each result against the reference (purity across calls). \
         non-trivial = Poseidon with n>=4 or a boundary element, or a byte string whose length is within 1 of a multiple of 136 (>=135) or > 136; distinct by case content".into()
    }
    fn assumptions(&self) -> Vec<String> {
        vec![
            "reference Poseidon constants = frozen copy of the published circomlib/poseidon-rs tables (data/poseidon_constants.json), validated by circomlibjs known answers at start-up".into(),
            "keccak::f1600 (RustCrypto) is a correct Keccak permutation; validated by three known answers at start-up".into(),
        ]
    }
    fn plan(&self, tier: Tier) -> Plan {
        Plan {
            shards: 16,
            cases_per_shard: tier.pick(4_000, 300_000),
            max_shrink_iters: 2048,
            watchdog_s: tier.pick(600, 5400),
        }
    }
    fn selftest(&self, _ctx: &Ctx) -> Result<(), String> {
        // The hasher is a generic library type. Before the first hash over the scalar field in this
        // process, the same library is instantiated with the same round parameters over another prime
        // field of the same bit length (BN254's base field) and used once: nothing the library keeps
        // per process may be shared between instantiations. (Contained: a failure here is not judged.)
        let _ = guarded(|| {
            let other = zerokit_utils::poseidon::poseidon_hash::Poseidon::<ark_bn254::Fq>::from(&rln::hashers::ROUND_PARAMS);
            for n in 1..=8u64 {
                let v: Vec<ark_bn254::Fq> = (1..=n).map(ark_bn254::Fq::from).collect();
                let _ = other.hash(&v);
            }
        });
        keccak_ref::selftest()?;
        poseidon_ref::selftest()
    }
    fn strategy(&self, tier: Tier, _shard: usize) -> BoxedStrategy<Case> {
        let max_long = tier.pick(20_000, 1 << 20);
        prop_oneof![
            4 => (1usize..=8).prop_flat_map(|n| proptest::collection::vec(gens::fx(), n)).prop_map(Case::Poseidon),
            1 => (1usize..=8, gens::fx()).prop_map(|(n, f)| Case::Poseidon(vec![f; n])),
            4 => gens::bytes(max_long).prop_map(Case::Keccak),
            // lengths next to a power of two, 2^10 .. 2^17 (2^20 in the thorough tier)
            1 => (10u32..=tier.pick(17, 20), 0usize..5, any::<u64>()).prop_map(|(k, d, seed)| Case::Keccak(Bytes::Pat { len: (1usize << k) + d - 2, seed })),
            2 => (gens::bytes(2000), any::<u16>(), 1u8..=255).prop_map(|(base, at, xor)| Case::KeccakSeq { base, at, xor }),
            1 => ((1usize..=8).prop_flat_map(|n| proptest::collection::vec(gens::fx(), n)), any::<u8>(), gens::fx()).prop_map(|(v, at, other)| Case::PoseidonSeq { v, at, other }),
        ]
        .boxed()
    }
    fn check(&self, _ctx: &Ctx, case: &Case) -> Outcome {
        let mut o = Outcome::new();
        // reader / writer behaviour of the byte-level entry points: contiguous, 1, 7 or 33 bytes per call
        gens::set_io_style((case_hash(case) % 4) as u8);
        o.label(format!("io-style/{}", gens::io_style()));
        match case {
            Case::Poseidon(v) => {
                o.label(format!("poseidon/n={}", v.len()));
                let b = v.iter().any(gens::is_boundary);
                if b {
                    o.label("poseidon/boundary-element");
                }
                o.nontrivial = v.len() >= 4 || b;
                check_poseidon(v, &mut o);
            }
            Case::Keccak(b) => {
                let data = b.expand();
                let edge = gens::near_block_edge(data.len());
                o.label(if data.len() > 136 { "keccak/multi-block" } else { "keccak/single-block" });
                if edge {
                    o.label("keccak/block-edge");
                }
                if data.is_empty() {
                    o.label("keccak/empty");
                }
                o.nontrivial = edge || data.len() > 136;
                check_keccak(&data, &mut o);
            }
            Case::KeccakSeq { base, at, xor } => {
                let s1 = base.expand();
                if s1.is_empty() {
                    check_keccak(&s1, &mut o);
                    return o;
                }
                let mut s2 = s1.clone();
                // positions weighted towards the end (long shared prefix) and the start
                let i = match at % 4 {
                    0 => s2.len() - 1,
                    1 => s2.len() - 1 - (*at as usize / 4) % s2.len().min(40),
                    2 => (*at as usize / 4) % s2.len().min(40),
                    _ => pick_index(*at, s2.len()),
                };
                s2[i] ^= *xor;
                o.label(if i >= 32 { "keccak-seq/shared-prefix>=32" } else { "keccak-seq/early-difference" });
                o.nontrivial = s1.len() > 32;
                let mut n = 0;
                for d in [&s1, &s2, &s1, &s2] {
                    check_keccak(d, &mut o);
                    n += o.evals;
                    if o.failed() {
                        let m = o.fail.take().unwrap();
                        vfail!(o, "{m} [back-to-back calls on inputs of equal length {} differing only at byte {i}]", s1.len());
                        return o;
                    }
                }
                o.evals = n;
            }
            Case::PoseidonSeq { v, at, other } => {
                let mut v2 = v.clone();
                let i = *at as usize % v2.len();
                v2[i] = if v2[i] == *other { Fx::from_u64(1) } else { *other };
                o.label(format!("poseidon-seq/n={}", v.len()));
                o.nontrivial = v.len() >= 2;
                for d in [v, &v2, v] {
                    check_poseidon(d, &mut o);
                    if o.failed() {
                        let m = o.fail.take().unwrap();
                        vfail!(o, "{m} [back-to-back calls on vectors differing only at element {i}]");
                        return o;
                    }
                }
            }
        }
        if !o.failed() {
            if let Some(m) = gens::ffi_outputs_breach() {
                vfail!(o, "{m}");
            }
        }
        o
    }
    fn fixed_part(&self, ctx: &Ctx, stats: &mut Stats) -> Option<(String, Option<Case>)> {
        // (a) fixed boundary table: every arity with all-zero, all-(p-1), all-one; every edge length
        let p1 = Fx::from_big(&(crate::models::field::p() - 1u32));
        let mut fixed: Vec<Case> = vec![];
        for n in 1..=8usize {
            for f in [Fx::from_u64(0), Fx::from_u64(1), p1] {
                fixed.push(Case::Poseidon(vec![f; n]));
            }
            fixed.push(Case::Poseidon((0..n).map(|i| Fx::from_u64(i as u64 + 1)).collect()));
        }
        // size ladder: one below / at / one above every power of two up to 2^17 (buffer and chunk sizes
        // inside readers and hashers are powers of two)
        let ladder = (12u32..=17).flat_map(|k| [(1usize << k) - 1, 1 << k, (1 << k) + 1]).chain([100_000usize, 200_000]);
        for len in gens::EDGE_LENS.iter().copied().chain([1000usize, 4096, 10_000]).chain(ladder) {
            fixed.push(Case::Keccak(Bytes::Pat { len, seed: 7 }));
            fixed.push(Case::Keccak(Bytes::Lit(vec![0u8; len.min(300)])));
        }
        if ctx.tier == Tier::Thorough {
            fixed.push(Case::Keccak(Bytes::Pat { len: 1 << 20, seed: 3 }));
        }
        for c in &fixed {
            let mut out = self.check(ctx, c);
            out.label("fixed-table");
            stats.record(&out, case_hash(c), || self.sample_view(c));
            if let Some(m) = out.fail {
                return Some((m, Some(c.clone())));
            }
        }
        // (b) purity across threads: the same inputs hashed concurrently from 8 threads
        let inputs: Vec<Vec<ark_bn254::Fr>> = (1..=8usize)
            .map(|n| (0..n).map(|i| ark_bn254::Fr::from((i * 7 + n) as u64)).collect())
            .collect();
        let seq: Vec<_> = inputs.iter().map(|v| rln::hashers::poseidon_hash(v)).collect();
        let seqk: Vec<_> = gens::EDGE_LENS.iter().map(|l| rln::hashers::hash_to_field(&vec![0xabu8; *l])).collect();
        let bad = std::sync::atomic::AtomicBool::new(false);
        std::thread::scope(|s| {
            for _ in 0..8 {
                s.spawn(|| {
                    for _ in 0..20 {
                        let a: Vec<_> = inputs.iter().map(|v| rln::hashers::poseidon_hash(v)).collect();
                        let k: Vec<_> = gens::EDGE_LENS.iter().map(|l| rln::hashers::hash_to_field(&vec![0xabu8; *l])).collect();
                        if a != seq || k != seqk {
                            bad.store(true, std::sync::atomic::Ordering::SeqCst);
                        }
                    }
                });
            }
        });
        stats.evaluations += 8 * 20 * (8 + gens::EDGE_LENS.len() as u64);
        *stats.labels.entry("concurrent-8-threads".into()).or_default() += 1;
        if bad.load(std::sync::atomic::Ordering::SeqCst) {
            return Some(("hash results differ between concurrent threads and the sequential run".into(), None));
        }
        None
    }
    fn sample_view(&self, case: &Case) -> serde_json::Value {
        match case {
            Case::Keccak(Bytes::Lit(v)) if v.len() > 64 => serde_json::json!({"Keccak": {"Lit_len": v.len()}}),
            c => serde_json::to_value(c).unwrap(),
        }
    }
}
