//! C18 — results do not depend on thread count or interleaving.
//!
//! (a) Pool: a generated sequential workload (batch tree updates, witnesses, witness-map H vectors,
//!     Groth16 proofs with fixed blinding, proof values, verdicts on golden and tampered messages)
//!     is executed by child processes under RAYON_NUM_THREADS in {1,2,4,16}; transcripts must be
//!     identical line by line (fixed part, not generated per case: each workload costs seconds).
//! (b) Shared: one shared RLN instance, N threads released together, each with a generated list of
//!     read-only calls and spin jitter; every result must equal the same call made sequentially.
//! (c) Lazy: the same in a fresh process, so that the lazily initialised globals (proving key,
//!     Poseidon parameters, graph) are first touched concurrently.
//! (d) Recreate: drop a persistent instance and re-create it at once, n times, under a time bound.

use super::c16::{Api, Store, StoreCfg};
use super::trees::{pool_value, Backend, Op, Pos, PosKind, ROp, POOL};
use crate::engine::*;
use crate::gens::{self, Bytes};
use crate::models::codec_ref as cr;
use crate::models::field::{fr_to_big, fr_to_le32};
use crate::models::tree_model::TreeModel;
use crate::pipeline::{self, Req};
use crate::rlnh::Wit;
use ark_bn254::Fr;
use num_bigint::BigUint;
use proptest::prelude::*;
use rln::public::RLN;
use serde::{Deserialize, Serialize};
use sha2::{Digest, Sha256};
use std::io::Cursor;
use std::sync::{Arc, Barrier, OnceLock};
use std::time::{Duration, Instant};
use zerokit_utils::ZerokitMerkleTree;

pub struct C18;

// ---------------------------------------------------------------------------------------------
// read-only calls on a shared instance
// ---------------------------------------------------------------------------------------------

#[derive(Clone, Debug, Serialize, Deserialize, PartialEq, Eq)]
pub enum RCall {
    Verify(u8, bool),
    VerifyRln(u8, bool),
    /// message k, root set contains the root?
    VerifyRoots(u8, bool, bool),
    Recover(u8, u8),
    Hash(Bytes),
    Poseidon(Vec<u8>),
    SeededKeyGen(Bytes),
    SeededExtKeyGen(Bytes),
    KeyGen,
    GetRoot,
    GetLeaf(u32),
    GetProof(u32),
    GetSubtreeRoot(u8, u32),
    GetEmpty,
    GetMetadata,
    /// the full witness of a fixed assignment, evaluated on the bundled graph (digest)
    Witness(u8),
    /// the same evaluation handed a damaged graph file: that call fails (error or contained panic,
    /// both reported as "refused"); it is in the lists for what it does to the callers next to it
    WitnessDamagedGraph(u8),
}

/// assignment k: pool values on the path, direction bits from k
fn wit_for(k: u8) -> Wit {
    use crate::models::field::Fx;
    Wit {
        s: Fx(pool_value(k) + Fr::from(k as u64 + 1)),
        limit: Fx::from_u64(1000),
        mid: Fx::from_u64(k as u64),
        path: (0..20).map(|i| Fx(pool_value(k.wrapping_add(i)))).collect(),
        bits: (0..20).map(|i| (k >> (i % 8)) & 1).collect(),
        x: Fx(pool_value(k.wrapping_add(3))),
        e: Fx(pool_value(k.wrapping_add(4)) + Fr::from(7u64)),
    }
}

use crate::rlnh::damaged_graph;

impl RCall {
    fn kind(&self) -> &'static str {
        match self {
            RCall::Verify(..) => "verify",
            RCall::VerifyRln(..) => "verify_rln_proof",
            RCall::VerifyRoots(..) => "verify_with_roots",
            RCall::Recover(..) => "recover_id_secret",
            RCall::Hash(_) => "hash",
            RCall::Poseidon(_) => "poseidon_hash",
            RCall::SeededKeyGen(_) => "seeded_key_gen",
            RCall::SeededExtKeyGen(_) => "seeded_extended_key_gen",
            RCall::KeyGen => "key_gen",
            RCall::GetRoot => "get_root",
            RCall::GetLeaf(_) => "get_leaf",
            RCall::GetProof(_) => "get_proof",
            RCall::GetSubtreeRoot(..) => "get_subtree_root",
            RCall::GetEmpty => "get_empty_leaves_indices",
            RCall::GetMetadata => "get_metadata",
            RCall::Witness(_) => "calculate_rln_witness",
            RCall::WitnessDamagedGraph(_) => "calculate_rln_witness(damaged graph)",
        }
    }
}

/// message material shared with child processes
#[derive(Clone, Debug, Serialize, Deserialize)]
pub struct Msgs {
    /// (proof|values, signal)
    pub msgs: Vec<(Vec<u8>, Vec<u8>)>,
    pub root: Vec<u8>,
    /// leaves placed in the instance's tree: (index, value bytes)
    pub leaves: Vec<(usize, Vec<u8>)>,
}

pub struct Shared {
    pub rln: RLN,
    pub msgs: Msgs,
}

static SHARED: OnceLock<Result<Shared, String>> = OnceLock::new();

fn build_msgs() -> Result<(pipeline::Pool, Msgs), String> {
    let mut pool = pipeline::build_pool(18, 2, "c18-pool")?;
    // a twin of message 0 (same identity, epoch and message id, other signal) for recovery
    let mut r = pool.msgs[0].req.clone();
    r.signal = Bytes::Lit(b"c18 twin".to_vec());
    let mut out = vec![];
    pool.rln.generate_rln_proof(Cursor::new(r.encode()), &mut out).map_err(|e| e.to_string())?;
    let mut msgs: Vec<(Vec<u8>, Vec<u8>)> = pool.msgs.iter().map(|g| (g.msg.clone(), g.signal.clone())).collect();
    msgs.push((out, b"c18 twin".to_vec()));
    let leaves = pool.msgs.iter().map(|g| (g.req.index, cr::enc_fr(&g.req.rate_commitment()))).collect();
    let root = cr::enc_fr(&pool.root);
    Ok((pool, Msgs { msgs, root, leaves }))
}

fn shared() -> Result<&'static Shared, String> {
    SHARED
        .get_or_init(|| {
            let (pool, msgs) = build_msgs()?;
            let mut rln = pool.rln;
            rln.set_metadata(b"c18 metadata").map_err(|e| e.to_string())?;
            Ok(Shared { rln, msgs })
        })
        .as_ref()
        .map_err(|e| e.clone())
}

/// an instance holding the same tree, built from the message material (child processes)
fn instance_from(msgs: &Msgs) -> Result<RLN, String> {
    let mut rln = crate::rlnh::new_rln(20);
    for (i, v) in &msgs.leaves {
        rln.set_leaf(*i, Cursor::new(v.clone())).map_err(|e| e.to_string())?;
    }
    rln.set_metadata(b"c18 metadata").map_err(|e| e.to_string())?;
    Ok(rln)
}

fn tamper(mut b: Vec<u8>, on: bool, at: usize) -> Vec<u8> {
    if on && !b.is_empty() {
        let i = at % b.len();
        b[i] ^= 0x10;
    }
    b
}

/// result of a read-only call as bytes (tag + payload); unseeded key generation is reduced to its shape
pub fn exec(r: &RLN, m: &Msgs, c: &RCall) -> Vec<u8> {
    let n = m.msgs.len();
    if let RCall::WitnessDamagedGraph(k) = c {
        let g = damaged_graph(*k);
        return match guarded(|| rln::circuit::calculate_rln_witness(crate::rlnh::named_inputs(&wit_for(*k)), &g)) {
            Ok(w) => {
                let mut h = Sha256::new();
                for f in &w {
                    h.update(fr_to_le32(f));
                }
                let mut b = h.finalize().to_vec();
                b.insert(0, 1);
                b
            }
            // refused, one way or the other
            Err(_) => vec![3],
        };
    }
    let res: Result<Result<Vec<u8>, String>, Panicked> = guarded(|| {
        let es = |e: color_eyre::Report| e.to_string();
        let mut out = vec![];
        match c {
            RCall::Verify(k, t) => r.verify(Cursor::new(tamper(m.msgs[*k as usize % n].0.clone(), *t, 140))).map(|b| vec![b as u8]).map_err(es),
            RCall::VerifyRln(k, t) => {
                let (msg, sig) = &m.msgs[*k as usize % n];
                r.verify_rln_proof(Cursor::new(tamper(cr::enc_verify_input(msg, sig), *t, 200))).map(|b| vec![b as u8]).map_err(es)
            }
            RCall::VerifyRoots(k, with_root, t) => {
                let (msg, sig) = &m.msgs[*k as usize % n];
                let mut roots = cr::enc_fr(&BigUint::from(77u32));
                if *with_root {
                    roots.extend_from_slice(&m.root);
                }
                r.verify_with_roots(Cursor::new(tamper(cr::enc_verify_input(msg, sig), *t, 170)), Cursor::new(roots)).map(|b| vec![b as u8]).map_err(es)
            }
            RCall::Recover(a, b) => {
                let (m1, s1) = &m.msgs[*a as usize % n];
                let (m2, s2) = &m.msgs[*b as usize % n];
                r.recover_id_secret(Cursor::new(cr::enc_verify_input(m1, s1)), Cursor::new(cr::enc_verify_input(m2, s2)), &mut out).map(|_| out).map_err(es)
            }
            RCall::Hash(b) => rln::public::hash(Cursor::new(b.expand()), &mut out).map(|_| out).map_err(es),
            RCall::Poseidon(v) => {
                let enc = cr::enc_vec_fr(&v.iter().map(|i| fr_to_big(&pool_value(*i))).collect::<Vec<_>>());
                rln::public::poseidon_hash(Cursor::new(enc), &mut out).map(|_| out).map_err(es)
            }
            RCall::SeededKeyGen(b) => r.seeded_key_gen(Cursor::new(b.expand()), &mut out).map(|_| out).map_err(es),
            RCall::SeededExtKeyGen(b) => r.seeded_extended_key_gen(Cursor::new(b.expand()), &mut out).map(|_| out).map_err(es),
            RCall::KeyGen => r.key_gen(&mut out).map(|_| vec![out.len() as u8]).map_err(es),
            RCall::GetRoot => r.get_root(&mut out).map(|_| out).map_err(es),
            RCall::GetLeaf(i) => r.get_leaf(leaf_pos(m, *i), &mut out).map(|_| out).map_err(es),
            RCall::GetProof(i) => r.get_proof(leaf_pos(m, *i), &mut out).map(|_| out).map_err(es),
            RCall::GetSubtreeRoot(l, i) => r.get_subtree_root(*l as usize % 21, leaf_pos(m, *i), &mut out).map(|_| out).map_err(es),
            RCall::GetEmpty => r.get_empty_leaves_indices(&mut out).map(|_| {
                // the list is long for a sparse depth-20 tree: keep its digest
                Sha256::digest(&out).to_vec()
            }).map_err(es),
            RCall::GetMetadata => r.get_metadata(&mut out).map(|_| out).map_err(es),
            RCall::Witness(k) => {
                let w = rln::circuit::calculate_rln_witness(crate::rlnh::named_inputs(&wit_for(*k)), crate::rlnh::graph_bytes());
                let mut h = Sha256::new();
                for f in &w {
                    h.update(fr_to_le32(f));
                }
                Ok(h.finalize().to_vec())
            }
            RCall::WitnessDamagedGraph(_) => unreachable!(),
        }
    });
    match res {
        Ok(Ok(mut b)) => {
            b.insert(0, 1);
            b
        }
        Ok(Err(_)) => vec![0],
        Err(p) => format!("\u{2}PANIC {}", p.0).into_bytes(),
    }
}

/// positions: the registered leaves, their neighbours and a few fixed ones
fn leaf_pos(m: &Msgs, sel: u32) -> usize {
    let cap = 1usize << 20;
    let mut v: Vec<usize> = vec![0, 1, cap / 2, cap - 1, cap];
    for (i, _) in &m.leaves {
        v.push(*i);
        v.push(*i ^ 1);
    }
    v[sel as usize % v.len()]
}

fn hexs(b: &[u8]) -> String {
    b.iter().take(48).map(|x| format!("{x:02x}")).collect::<String>() + if b.len() > 48 { "…" } else { "" }
}

// ---------------------------------------------------------------------------------------------
// (b) shared instance, in-process
// ---------------------------------------------------------------------------------------------

fn spin(n: u16) {
    let mut x = 0u64;
    for i in 0..(n as u64 * 40) {
        x = x.wrapping_mul(6364136223846793005).wrapping_add(i);
        std::hint::black_box(x);
    }
    if n % 7 == 0 {
        std::thread::yield_now();
    }
}

/// sequential reference results come from one long-lived instance, one caller at a time
static REF_LOCK: std::sync::Mutex<()> = std::sync::Mutex::new(());

fn reference(sh: &Shared, c: &RCall) -> Vec<u8> {
    let _g = REF_LOCK.lock().unwrap_or_else(|e| e.into_inner());
    exec(&sh.rln, &sh.msgs, c)
}

/// burst: every thread repeats its one call `reps` times against the expected result; returns per
/// thread (mismatches, first differing result)
fn run_burst(r: &RLN, m: &Msgs, calls: &[RCall], want: &[Vec<u8>], reps: &[u32], limit: Duration) -> Vec<(u32, Option<Vec<u8>>)> {
    let n = calls.len();
    let barrier = Arc::new(Barrier::new(n));
    let (tx, rx) = std::sync::mpsc::channel::<(usize, u32, Option<Vec<u8>>)>();
    let mut results: Vec<Option<(u32, Option<Vec<u8>>)>> = vec![None; n];
    let deadline = Instant::now() + limit;
    std::thread::scope(|s| {
        for t in 0..n {
            let tx = tx.clone();
            let barrier = barrier.clone();
            let (c, w, k) = (&calls[t], &want[t], reps[t]);
            s.spawn(move || {
                barrier.wait();
                let mut bad = 0u32;
                let mut first = None;
                for _ in 0..k {
                    let got = exec(r, m, c);
                    if &got != w {
                        bad += 1;
                        if first.is_none() {
                            first = Some(got);
                        }
                    }
                }
                let _ = tx.send((t, bad, first));
            });
        }
        drop(tx);
        for _ in 0..n {
            match rx.recv_timeout(deadline.saturating_duration_since(Instant::now())) {
                Ok((t, bad, first)) => results[t] = Some((bad, first)),
                Err(_) => {
                    println!("INCONCLUSIVE property=C18 concurrent callers did not finish within {limit:?} (possible deadlock); not a verdict");
                    std::process::exit(2);
                }
            }
        }
    });
    results.into_iter().map(|r| r.unwrap()).collect()
}

fn run_threads(r: &RLN, m: &Msgs, lists: &[Vec<(RCall, u16)>], limit: Duration) -> Result<Vec<Vec<Vec<u8>>>, String> {
    let n = lists.len();
    let barrier = Arc::new(Barrier::new(n));
    let (tx, rx) = std::sync::mpsc::channel::<(usize, Vec<Vec<u8>>)>();
    let mut results: Vec<Option<Vec<Vec<u8>>>> = vec![None; n];
    let deadline = Instant::now() + limit;
    let mut timed_out = false;
    std::thread::scope(|s| {
        for (t, list) in lists.iter().enumerate() {
            let tx = tx.clone();
            let barrier = barrier.clone();
            s.spawn(move || {
                barrier.wait();
                let mut out = vec![];
                for (c, j) in list {
                    spin(*j);
                    out.push(exec(r, m, c));
                }
                let _ = tx.send((t, out));
            });
        }
        drop(tx);
        for _ in 0..n {
            let left = deadline.saturating_duration_since(Instant::now());
            match rx.recv_timeout(left) {
                Ok((t, out)) => results[t] = Some(out),
                Err(_) => {
                    timed_out = true;
                    break;
                }
            }
        }
        if timed_out {
            // threads are stuck inside the code under test: a scope cannot be left; report and stop
            println!("INCONCLUSIVE property=C18 concurrent callers did not finish within {limit:?} (possible deadlock); not a verdict");
            std::process::exit(2);
        }
    });
    Ok(results.into_iter().map(|r| r.unwrap()).collect())
}

// ---------------------------------------------------------------------------------------------
// (f) two key files in one process
// ---------------------------------------------------------------------------------------------

fn run_two_keys(sh: &Shared, threads: usize, o: &mut Outcome) {
    let k2 = match crate::rlnh::rescaled_zkey() {
        Ok(k) => k,
        Err(e) => {
            vfail!(o, "cannot derive a second valid key file: {e}");
            return;
        }
    };
    let graph = crate::rlnh::graph_bytes().to_vec();
    let (msg, _sig) = &sh.msgs.msgs[0];
    let make = |key: &[u8]| guarded(|| RLN::new_with_params(3, key.to_vec(), graph.clone(), Cursor::new("{}".to_string())).map_err(|e| e.to_string()));
    let verdict = |r: &RLN| guarded(|| r.verify(Cursor::new(msg.clone())).map_err(|e| e.to_string()));
    // sequential reference: an instance from the second key file rejects a message proven for the shipped key
    let want2 = match make(k2) {
        Ok(Ok(r)) => format!("{:?}", verdict(&r)),
        other => {
            vfail!(o, "new_with_params refused a valid key file: {:?}", other.map(|r| r.map(|_| ())));
            return;
        }
    };
    // the shipped key file is read last ...
    let want1 = match make(rln::circuit::ZKEY_BYTES) {
        Ok(Ok(r)) => format!("{:?}", verdict(&r)),
        other => {
            vfail!(o, "new_with_params refused the shipped key file: {:?}", other.map(|r| r.map(|_| ())));
            return;
        }
    };
    if want1 != "Ok(Ok(true))" || want2 == want1 {
        vfail!(o, "sequential reference: instance from the shipped key file gives {want1}, from the second key file {want2} (expected acceptance / rejection)");
        return;
    }
    // ... then `threads` callers create instances from the second key file at once
    let barrier = Arc::new(Barrier::new(threads));
    let got: Vec<String> = std::thread::scope(|s| {
        let hs: Vec<_> = (0..threads)
            .map(|_| {
                let barrier = barrier.clone();
                let (make, verdict) = (&make, &verdict);
                s.spawn(move || {
                    barrier.wait();
                    match make(k2) {
                        Ok(Ok(r)) => format!("{:?}", verdict(&r)),
                        other => format!("construction failed: {:?}", other.map(|r| r.map(|_| ()))),
                    }
                })
            })
            .collect();
        hs.into_iter().map(|h| h.join().unwrap_or_else(|_| "thread panicked".into())).collect()
    });
    for (t, g) in got.iter().enumerate() {
        o.evals += 1;
        if g != &want2 {
            vfail!(o, "{threads} threads creating instances from the same key file at once (another key file was read just before): thread {t}'s instance answers {g} for a message proven under the shipped key, an instance created alone answers {want2}");
            return;
        }
    }
}

// ---------------------------------------------------------------------------------------------
// (e) readers behind the C interface
// ---------------------------------------------------------------------------------------------

#[derive(Clone, Copy)]
struct CtxPtr(usize);
unsafe impl Send for CtxPtr {}
unsafe impl Sync for CtxPtr {}

/// (root, leaf, proof) read through the FFI; None = the call reported failure
/// (get_leaf takes the context mutably in the C interface, so only the writing thread calls it)
fn ffi_reads(ctx: CtxPtr, i: usize, with_leaf: bool) -> [Option<Vec<u8>>; 3] {
    use rln::ffi as f;
    let p = ctx.0 as *const RLN;
    let take = |flag: bool, b: &f::Buffer| if flag { Some(if b.len == 0 { vec![] } else { unsafe { std::slice::from_raw_parts(b.ptr, b.len) }.to_vec() }) } else { None };
    let mut b0 = f::Buffer { ptr: std::ptr::null(), len: 0 };
    let r0 = f::get_root(p, &mut b0);
    let root = take(r0, &b0);
    let mut b1 = f::Buffer { ptr: std::ptr::null(), len: 0 };
    let leaf = if with_leaf {
        let r1 = f::get_leaf(ctx.0 as *mut RLN, i, &mut b1);
        take(r1, &b1)
    } else {
        None
    };
    let mut b2 = f::Buffer { ptr: std::ptr::null(), len: 0 };
    let r2 = f::get_proof(p, i, &mut b2);
    let proof = take(r2, &b2);
    [root, leaf, proof]
}

fn run_ffi_readers(depth: usize, readers: usize, writes: &[(u16, u8)], o: &mut Outcome) {
    use rln::ffi as f;
    let cfg = b"{}".to_vec();
    let mut raw: *mut RLN = std::ptr::null_mut();
    if !f::new(depth, &f::Buffer { ptr: cfg.as_ptr(), len: cfg.len() }, &mut raw as *mut *mut RLN) || raw.is_null() {
        vfail!(o, "ffi::new(depth {depth}) failed");
        return;
    }
    let ctx = CtxPtr(raw as usize);
    let mut m = TreeModel::new(depth, Fr::from(0u64));
    let start = Arc::new(Barrier::new(readers + 1));
    let end = Arc::new(Barrier::new(readers + 1));
    let stop = Arc::new(std::sync::atomic::AtomicBool::new(false));
    let index = Arc::new(std::sync::atomic::AtomicUsize::new(0));
    let results: Arc<std::sync::Mutex<Vec<(usize, [Option<Vec<u8>>; 3])>>> = Arc::new(std::sync::Mutex::new(vec![]));
    std::thread::scope(|s| {
        for t in 0..readers {
            let (start, end, stop, index, results) = (start.clone(), end.clone(), stop.clone(), index.clone(), results.clone());
            s.spawn(move || loop {
                start.wait();
                if stop.load(std::sync::atomic::Ordering::SeqCst) {
                    break;
                }
                let i = index.load(std::sync::atomic::Ordering::SeqCst);
                let r = ffi_reads(ctx, i, false);
                results.lock().unwrap_or_else(|e| e.into_inner()).push((t, r));
                end.wait();
            });
        }
        // round 0 reads the empty tree; then one write (made by this thread while the readers wait)
        // before every further round
        for round in 0..=writes.len() {
            let i = if round == 0 {
                0
            } else {
                let (sel, v) = writes[round - 1];
                let i = pick_index(sel, m.cap());
                let val = pool_value(v);
                let bytes = fr_to_le32(&val);
                if !f::set_leaf(raw, i, &f::Buffer { ptr: bytes.as_ptr(), len: bytes.len() }) {
                    vfail!(o, "round {round}: ffi::set_leaf({i}) reported failure");
                    break;
                }
                m.set(i, val);
                i
            };
            index.store(i, std::sync::atomic::Ordering::SeqCst);
            results.lock().unwrap_or_else(|e| e.into_inner()).clear();
            start.wait();
            end.wait();
            let (sibs, bits) = m.proof(i).unwrap();
            let mut want_proof = cr::enc_vec_fr(&sibs.iter().map(fr_to_big).collect::<Vec<_>>());
            want_proof.extend(cr::enc_vec_u8(&bits));
            let want = [Some(fr_to_le32(&m.root()).to_vec()), Some(fr_to_le32(&m.get(i).unwrap()).to_vec()), Some(want_proof)];
            let mut all = results.lock().unwrap_or_else(|e| e.into_inner()).clone();
            all.push((usize::MAX, ffi_reads(ctx, i, true)));
            for (t, got) in all {
                o.evals += 3;
                for (k, name) in ["get_root", "get_leaf", "get_proof"].iter().enumerate() {
                    if k == 1 && t != usize::MAX {
                        continue;
                    }
                    if got[k] != want[k] {
                        let who = if t == usize::MAX { "the writing thread".to_string() } else { format!("reader thread {t} of {readers}") };
                        vfail!(o, "round {round} (after {round} writes, the last at leaf {i}): {name} read through the C interface by {who} gives {}, the tree holds {}", got[k].as_ref().map(|b| hexs(b)).unwrap_or("failure".into()), hexs(want[k].as_ref().unwrap()));
                        break;
                    }
                }
                if o.failed() {
                    break;
                }
            }
            if o.failed() {
                break;
            }
        }
        stop.store(true, std::sync::atomic::Ordering::SeqCst);
        start.wait();
    });
    // the context is released by the thread that created it
    let _ = unsafe { Box::from_raw(raw) };
}

// ---------------------------------------------------------------------------------------------
// (a) worker-pool sizes: child processes
// ---------------------------------------------------------------------------------------------

#[derive(Clone, Debug, Serialize, Deserialize)]
pub struct Workload {
    pub tree_depth: usize,
    pub tree_ops: Vec<Op>,
    pub wits: Vec<Wit>,
    pub reqs: Vec<Req>,
    pub msgs: Msgs,
    pub calls: Vec<RCall>,
}

fn h(b: &[u8]) -> String {
    Sha256::digest(b).iter().take(12).map(|x| format!("{x:02x}")).collect()
}

/// child side of (a): prints one transcript line per observation
pub fn pool_child(path: &str) -> i32 {
    let w: Workload = match load_replay(std::path::Path::new(path)) {
        Ok(w) => w,
        Err(e) => {
            println!("BAD {e}");
            return 3;
        }
    };
    println!("threads {}", rayon_threads());
    // 1. batch updates on the persistent backend (parallel recomputation inside)
    {
        let mut t = <rln::pm_tree_adapter::PmTree as ZerokitMerkleTree>::default(w.tree_depth).expect("tree");
        let mut m = TreeModel::new(w.tree_depth, Fr::from(0u64));
        for (k, op) in w.tree_ops.iter().enumerate() {
            let rop = op.resolve(&m);
            let res = guarded(|| match &rop {
                ROp::Set(i, v) => t.set(*i, *v).map_err(|e| e.to_string()),
                ROp::SetRange(s, v) => t.set_range(*s, v.clone().into_iter()).map_err(|e| e.to_string()),
                ROp::Batch(s, v, r) => t.override_range(*s, v.clone().into_iter(), r.clone().into_iter()).map_err(|e| e.to_string()),
                ROp::Delete(i) => t.delete(*i).map_err(|e| e.to_string()),
                ROp::Append(v) => t.update_next(*v).map_err(|e| e.to_string()),
                _ => Ok(()),
            });
            let tag = match &res {
                Ok(Ok(())) => {
                    let mut next = m.clone();
                    if rop.apply_model(&mut next) != crate::models::tree_model::Verdict::Rejected {
                        m = next;
                    }
                    "ok"
                }
                Ok(Err(_)) => "err",
                Err(_) => "panic",
            };
            println!("tree {k} {tag} root={} set={}", h(&fr_to_le32(&t.root())), t.leaves_set());
        }
    }
    // 2. witnesses, H vectors, proofs with fixed blinding, proof values
    let zkey = rln::circuit::zkey_from_folder();
    for (k, wit) in w.wits.iter().enumerate() {
        let Ok(Ok(iw)) = wit.to_impl() else {
            println!("wit {k} rejected");
            continue;
        };
        let inputs = rln::protocol::inputs_for_witness_calculation(&iw).expect("inputs").into_iter().map(|(n, v)| (n.to_string(), v));
        let full = rln::circuit::calculate_rln_witness(inputs, rln::circuit::graph_from_folder());
        let mut bytes = vec![];
        for f in &full {
            bytes.extend_from_slice(&fr_to_le32(f));
        }
        println!("wit {k} witness={}", h(&bytes));
        use ark_groth16::r1cs_to_qap::R1CSToQAP;
        let hv = rln::circuit::qap::CircomReduction::witness_map_from_matrices::<Fr, ark_poly::GeneralEvaluationDomain<Fr>>(
            &zkey.1,
            zkey.1.num_instance_variables,
            zkey.1.num_constraints,
            &full,
        )
        .expect("witness map");
        let mut hb = vec![];
        for f in &hv {
            hb.extend_from_slice(&fr_to_le32(f));
        }
        println!("wit {k} hvector={} len={}", h(&hb), hv.len());
        let proof = ark_groth16::Groth16::<ark_bn254::Bn254, rln::circuit::qap::CircomReduction>::create_proof_with_reduction_and_matrices(
            &zkey.0,
            Fr::from(7u64),
            Fr::from(11u64),
            &zkey.1,
            zkey.1.num_instance_variables,
            zkey.1.num_constraints,
            &full,
        )
        .expect("proof");
        let mut pb = vec![];
        ark_serialize::CanonicalSerialize::serialize_compressed(&proof, &mut pb).expect("ser");
        println!("wit {k} proof(fixed r,s)={}", h(&pb));
        let pv = rln::protocol::proof_values_from_witness(&iw).expect("values");
        println!("wit {k} values={}", h(&rln::protocol::serialize_proof_values(&pv)));
    }
    // 3. the public API: prove + verify, verdicts on the message pool
    let mut rln = match instance_from(&w.msgs) {
        Ok(r) => r,
        Err(e) => {
            println!("BAD instance {e}");
            return 3;
        }
    };
    for (k, req) in w.reqs.iter().enumerate() {
        let rc = req.rate_commitment();
        let _ = pipeline::set_leaf_big(&mut rln, req.index, &rc);
        let mut out = vec![];
        let res = guarded(|| rln.generate_rln_proof(Cursor::new(req.encode()), &mut out).map_err(|e| e.to_string()));
        match res {
            Ok(Ok(())) => {
                let v = pipeline::call_verify_rln(&rln, &cr::enc_verify_input(&out, &req.signal.expand()));
                println!("req {k} values={} verdict={:?}", h(&out[128..]), v);
            }
            other => println!("req {k} failed {:?}", other.map(|r| r.map_err(|e| truncate(&e, 60)))),
        }
        // restore the tree the message pool was made for
        let _ = rln.delete_leaf(req.index);
        for (i, v) in &w.msgs.leaves {
            let _ = rln.set_leaf(*i, Cursor::new(v.clone()));
        }
    }
    for (k, c) in w.calls.iter().enumerate() {
        println!("call {k} {} {}", c.kind(), h(&exec(&rln, &w.msgs, c)));
    }
    println!("END");
    0
}

fn rayon_threads() -> usize {
    std::env::var("RAYON_NUM_THREADS").ok().and_then(|s| s.parse().ok()).unwrap_or(0)
}

fn run_pool_workload(ctx: &Ctx, w: &Workload, idx: usize) -> Result<(u64, Vec<String>), String> {
    let dir = ctx.tmpdir.join(format!("c18-pool-{idx}"));
    let _ = std::fs::create_dir_all(&dir);
    let file = dir.join("workload.json");
    std::fs::write(&file, serde_json::to_string(&serde_json::json!({"case": w})).unwrap()).map_err(|e| e.to_string())?;
    let exe = std::env::current_exe().map_err(|e| e.to_string())?;
    let sizes = [1usize, 2, 4, 16];
    let mut children = vec![];
    for n in sizes {
        let child = std::process::Command::new(&exe)
            .arg("c18-pool-child")
            .arg(&file)
            .env("RAYON_NUM_THREADS", n.to_string())
            .env("TMPDIR", &dir)
            .stdin(std::process::Stdio::null())
            .stdout(std::process::Stdio::piped())
            .stderr(std::process::Stdio::null())
            .spawn()
            .map_err(|e| format!("cannot start child: {e}"))?;
        children.push((n, child));
    }
    let mut transcripts: Vec<(usize, Vec<String>)> = vec![];
    for (n, child) in children {
        let out = child.wait_with_output().map_err(|e| e.to_string())?;
        let text = String::from_utf8_lossy(&out.stdout).to_string();
        let lines: Vec<String> = text.lines().filter(|l| !l.starts_with("threads ")).map(|s| s.to_string()).collect();
        if !out.status.success() || lines.last().map(|s| s.as_str()) != Some("END") {
            return Err(format!("worker-pool size {n}: the workload did not run to completion (status {:?}); last lines: {:?}", out.status, lines.iter().rev().take(3).collect::<Vec<_>>()));
        }
        transcripts.push((n, lines));
    }
    let (_, base) = &transcripts[0];
    for (n, t) in &transcripts[1..] {
        if t.len() != base.len() {
            return Err(format!("transcript length differs between 1 and {n} worker threads: {} / {}", base.len(), t.len()));
        }
        for (a, b) in base.iter().zip(t.iter()) {
            if a != b {
                return Err(format!("result differs between 1 and {n} worker threads:\n    1: {a}\n    {n}: {b}"));
            }
        }
    }
    let _ = std::fs::remove_dir_all(&dir);
    Ok((base.len() as u64 * sizes.len() as u64, base.clone()))
}

fn workload_strategy() -> BoxedStrategy<Workload> {
    let pos = || {
        prop_oneof![
            3 => any::<u16>().prop_map(|raw| Pos { kind: PosKind::Uniform, raw }),
            2 => Just(Pos { kind: PosKind::Mark, raw: 0 }),
            1 => Just(Pos { kind: PosKind::Zero, raw: 0 }),
            1 => any::<u16>().prop_map(|raw| Pos { kind: PosKind::NearEnd, raw }),
        ]
    };
    let vals = |n: usize| proptest::collection::vec(0u8..POOL as u8, 1..n);
    let op = prop_oneof![
        5 => (pos(), vals(40)).prop_map(|(p, v)| Op::SetRange(p, v)),
        2 => (pos(), vals(300)).prop_map(|(p, v)| Op::SetRange(p, v)),
        // the aligned batch shape (start 0, smallest removal 0, removals inside the written range)
        2 => vals(12).prop_map(|v| Op::Batch(Pos { kind: PosKind::Zero, raw: 0 }, v, vec![Pos { kind: PosKind::Zero, raw: 0 }])),
        2 => (pos(), 0u8..POOL as u8).prop_map(|(p, v)| Op::Set(p, v)),
        1 => (0u8..POOL as u8).prop_map(Op::Append),
        1 => pos().prop_map(Op::Delete),
    ];
    (
        prop_oneof![Just(10usize), Just(20usize)],
        proptest::collection::vec(op, 4..12),
        proptest::collection::vec(crate::rlnh::valid_wit(), 2..=2),
        proptest::collection::vec(pipeline::req_strategy(300), 2..=2),
        proptest::collection::vec(rcall(), 12..24),
    )
        .prop_map(|(tree_depth, tree_ops, wits, reqs, calls)| Workload { tree_depth, tree_ops, wits, reqs, msgs: Msgs { msgs: vec![], root: vec![], leaves: vec![] }, calls })
        .boxed()
}

// ---------------------------------------------------------------------------------------------
// (c) lazily initialised globals: fresh process, concurrent first touch
// ---------------------------------------------------------------------------------------------

#[derive(Clone, Debug, Serialize, Deserialize)]
pub struct LazyJob {
    pub msgs: Msgs,
    pub lists: Vec<Vec<(RCall, u16)>>,
}

pub fn lazy_child(path: &str) -> i32 {
    let job: LazyJob = match load_replay(std::path::Path::new(path)) {
        Ok(w) => w,
        Err(e) => {
            println!("BAD {e}");
            return 3;
        }
    };
    // every thread builds its own instance first (concurrent first touch of the proving key, the
    // graph and the Poseidon parameters), then runs its calls on it
    let n = job.lists.len();
    let barrier = Arc::new(Barrier::new(n));
    let results: Vec<Result<Vec<Vec<u8>>, String>> = std::thread::scope(|s| {
        let hs: Vec<_> = job
            .lists
            .iter()
            .map(|list| {
                let barrier = barrier.clone();
                let msgs = &job.msgs;
                s.spawn(move || {
                    barrier.wait();
                    let r = guarded(|| instance_from(msgs)).map_err(|p| format!("panic: {}", p.0))??;
                    Ok(list.iter().map(|(c, j)| {
                        spin(*j);
                        exec(&r, msgs, c)
                    }).collect())
                })
            })
            .collect();
        hs.into_iter().map(|h| h.join().unwrap_or_else(|_| Err("thread panicked".into()))).collect()
    });
    for (t, r) in results.iter().enumerate() {
        match r {
            Ok(v) => {
                for (k, b) in v.iter().enumerate() {
                    println!("R {t} {k} {}", b.iter().map(|x| format!("{x:02x}")).collect::<String>());
                }
            }
            Err(e) => println!("E {t} {e}"),
        }
    }
    println!("END");
    0
}

// ---------------------------------------------------------------------------------------------
// property
// ---------------------------------------------------------------------------------------------

#[derive(Clone, Debug, Serialize, Deserialize)]
pub enum Case {
    /// `fresh`: the shared instance is created for this case and first touched by the concurrent
    /// callers (nothing warmed up by an earlier sequential call)
    Shared { lists: Vec<Vec<(RCall, u16)>>, fresh: bool },
    /// every thread hammers one call (cheap queries many times, verifications a few times)
    Burst { calls: Vec<RCall>, fresh: bool },
    Lazy { lists: Vec<Vec<(RCall, u16)>> },
    Recreate { api: Api, depth: usize, cfg: StoreCfg, n: u8, writes: Vec<(u16, u8)>, #[serde(default)] handoff_ms: u16, #[serde(default)] other_height: bool },
    /// instances created from one key file by several threads at once, right after another key file was
    /// read: each must carry the key it was given (verdicts on a message proven for the shipped key)
    TwoKeys { threads: u8 },
    /// one context behind the C interface: long-lived reader threads query it together (root, the
    /// written leaf, its membership path) after every write, which another thread makes while they wait
    FfiReaders { depth: usize, readers: u8, writes: Vec<(u16, u8)> },
}

fn rcall() -> BoxedStrategy<RCall> {
    prop_oneof![
        3 => (0u8..3, any::<bool>()).prop_map(|(k, t)| RCall::Verify(k, t)),
        3 => (0u8..3, any::<bool>()).prop_map(|(k, t)| RCall::VerifyRln(k, t)),
        3 => (0u8..3, any::<bool>(), any::<bool>()).prop_map(|(k, w, t)| RCall::VerifyRoots(k, w, t)),
        2 => (0u8..3, 0u8..3).prop_map(|(a, b)| RCall::Recover(a, b)),
        2 => gens::bytes(700).prop_map(RCall::Hash),
        3 => proptest::collection::vec(0u8..POOL as u8, 1..9).prop_map(RCall::Poseidon),
        2 => gens::bytes(300).prop_map(RCall::SeededKeyGen),
        2 => gens::bytes(300).prop_map(RCall::SeededExtKeyGen),
        1 => Just(RCall::KeyGen),
        2 => Just(RCall::GetRoot),
        2 => any::<u32>().prop_map(RCall::GetLeaf),
        3 => any::<u32>().prop_map(RCall::GetProof),
        2 => (any::<u8>(), any::<u32>()).prop_map(|(l, i)| RCall::GetSubtreeRoot(l, i)),
        1 => Just(RCall::GetEmpty),
        1 => Just(RCall::GetMetadata),
        2 => any::<u8>().prop_map(RCall::Witness),
        1 => any::<u8>().prop_map(RCall::WitnessDamagedGraph),
    ]
    .boxed()
}

fn lists(max_calls: usize) -> BoxedStrategy<Vec<Vec<(RCall, u16)>>> {
    prop_oneof![Just(2usize), Just(4usize), Just(4usize), Just(16usize)]
        .prop_flat_map(move |n| proptest::collection::vec(proptest::collection::vec((rcall(), prop_oneof![Just(0u16), 0u16..64, 0u16..2000]), 1..max_calls), n..=n))
        .boxed()
}

fn concurrent_same_kind(lists: &[Vec<(RCall, u16)>]) -> bool {
    // >= 4 threads and >= 2 of them issue the same call kind at the same list position
    if lists.len() < 4 {
        return false;
    }
    let maxlen = lists.iter().map(|l| l.len()).max().unwrap_or(0);
    (0..maxlen).any(|k| {
        let mut kinds: Vec<&'static str> = lists.iter().filter_map(|l| l.get(k).map(|(c, _)| c.kind())).collect();
        kinds.sort();
        kinds.windows(2).any(|w| w[0] == w[1])
    })
}

impl Property for C18 {
    type Case = Case;
    fn id(&self) -> &'static str {
        "C18"
    }
    fn rule(&self) -> String {
        "fixed part: W generated sequential workloads (batch updates on the persistent tree at depth 10/20, 2 witnesses -> full witness, witness-map H vector, Groth16 proof with fixed blinding, proof values; 2 public-API prove+verify; 12-24 read-only calls incl. verdicts on golden and tampered messages), each run in 4 child processes with RAYON_NUM_THREADS = 1, 2, 4, 16: transcripts identical line by line. \
         generated part: Shared = one shared instance (the long-lived one, or one created for the case and first touched by the concurrent callers), 2/4/16 threads released by a barrier, each with a generated list of read-only calls (verify*, recover, hash, poseidon_hash, seeded key derivation, unseeded key generation shape, root/leaf/proof/subtree-root/empty-list/metadata queries) and spin/yield jitter, every result equal to the same call made sequentially (one caller at a time, on the reference instance); Burst = 2/4/8/16 threads each repeating one call (membership-path queries 1500x quick / 6000x thorough, verifications a few times) against its sequential result; Lazy = the same in a fresh child process where every thread first builds its own instance (concurrent first touch of the lazily initialised globals); Recreate = persistent instance dropped and re-created n times at once (trait / RLN API, storage configurations), each re-creation must return Ok with the persisted state within 60 s (else exit 2); hand-over variant: the new instance is constructed by another thread while the old one is released 1..1000 ms later; TwoKeys = the shipped key file is read, then 2..4 threads create instances from a second valid key file (delta halved, L and H queries doubled) at once: every instance must answer as one created alone; Recreate cases with two writes end by creating an instance of another height on the location (must return within 60 s, else exit 2); FfiReaders = one context behind the C interface (depth 2..6), 1..4 long-lived reader threads released together after every one of 1..5 writes made by another thread, each reading the root and the written leaf's membership path (the writing thread also the leaf): every read equals the ideal tree after that write; calculate_rln_witness on the bundled graph and on damaged graph files (empty node record / cut in half / cut 3 bytes short / header only; error and contained panic both count as refused) are among the read-only calls. \
         evaluations = compared results. non-trivial = run with >= 4 threads in which >= 2 threads issued the same call kind at the same step, or a Recreate case with >= 10 re-creations; distinct by case content. Schedules are sampled, not enumerated.".into()
    }
    fn assumptions(&self) -> Vec<String> {
        vec![
            "interleavings are sampled by the OS scheduler plus generated jitter; the harness does not own rayon's or sled's scheduler, so a race needing one specific interleaving can be missed".into(),
            "a caller that does not return within the time bound is reported as INCONCLUSIVE (exit 2), never as a violation".into(),
        ]
    }
    fn plan(&self, tier: Tier) -> Plan {
        Plan { shards: 2, cases_per_shard: tier.pick(60, 1500), max_shrink_iters: 64, watchdog_s: tier.pick(1200, 14400) }
    }
    fn selftest(&self, _ctx: &Ctx) -> Result<(), String> {
        shared().map(|_| ())
    }
    fn fixed_part(&self, ctx: &Ctx, stats: &mut Stats) -> Option<(String, Option<Case>)> {
        let sh = shared().ok()?;
        let n = ctx.tier.pick(2, 24);
        let ws = pipeline::draw(&workload_strategy(), ctx.seed, "c18-workloads", n);
        for (i, mut w) in ws.into_iter().enumerate() {
            w.msgs = sh.msgs.clone();
            match run_pool_workload(ctx, &w, i) {
                Ok((n, lines)) => {
                    stats.cases += 1;
                    stats.evaluations += n;
                    *stats.labels.entry("pool-workload".into()).or_default() += 1;
                    *stats.counters.entry("pool_transcript_lines_compared".into()).or_default() += n;
                    stats.nontrivial_hashes.insert(case_hash(&w));
                    if stats.samples.len() < 2 {
                        stats.samples.push(serde_json::json!({"pool_workload": {"tree_depth": w.tree_depth, "tree_ops": w.tree_ops.len(), "witnesses": w.wits.len(), "requests": w.reqs.len(), "calls": w.calls.len()}, "transcript_head": lines.iter().take(8).collect::<Vec<_>>()}));
                    }
                }
                Err(e) => {
                    let dir = out_root().join("replays");
                    let _ = std::fs::create_dir_all(&dir);
                    let path = dir.join(format!("C18-pool-{:016x}.json", case_hash(&w)));
                    let _ = std::fs::write(&path, serde_json::to_string(&serde_json::json!({"property": "C18", "reason": e, "pool_workload": w})).unwrap());
                    return Some((format!("worker-pool workload {i}: {e} (workload saved as {})", path.display()), None));
                }
            }
        }
        None
    }
    fn strategy(&self, tier: Tier, _shard: usize) -> BoxedStrategy<Case> {
        let rec = (
            prop_oneof![3 => Just(Api::Trait), 1 => Just(Api::Rln)],
            3usize..=6,
            (0u8..4, 0u8..3, any::<bool>(), 0u8..3).prop_map(|(cache, flush_ms, low_space, path_style)| StoreCfg { cache, flush_ms, low_space, compression: false, path_style }),
            match tier {
                Tier::Quick => prop_oneof![3 => 2u8..6, 1 => 10u8..20].boxed(),
                Tier::Thorough => prop_oneof![3 => 2u8..10, 1 => 10u8..50].boxed(),
            },
            proptest::collection::vec((any::<u16>(), 1u8..POOL as u8), 1..4),
        )
            .prop_map(|(api, depth, cfg, n, writes)| Case::Recreate { api, depth, cfg, n, other_height: writes.len() == 2, writes, handoff_ms: 0 });
        let rec_handoff = (prop_oneof![3 => Just(Api::Trait), 1 => Just(Api::Rln)], 3usize..=6, proptest::collection::vec((any::<u16>(), 1u8..POOL as u8), 1..3), prop_oneof![1u16..120, 120u16..1000])
            .prop_map(|(api, depth, writes, handoff_ms)| Case::Recreate { api, depth, cfg: StoreCfg { cache: 0, flush_ms: 0, low_space: false, compression: false, path_style: 0 }, n: 2, writes, handoff_ms, other_height: false });
        prop_oneof![
            1 => rec_handoff,
            8 => (lists(8), any::<bool>()).prop_map(|(lists, fresh)| Case::Shared { lists, fresh }),
            3 => (prop_oneof![Just(2usize), Just(4usize), Just(8usize), Just(16usize)], any::<bool>())
                .prop_flat_map(|(n, fresh)| (proptest::collection::vec(prop_oneof![3 => any::<u32>().prop_map(RCall::GetProof), 1 => rcall()], n..=n), Just(fresh)))
                .prop_map(|(calls, fresh)| Case::Burst { calls, fresh }),
            1 => lists(5).prop_map(|lists| Case::Lazy { lists }),
            3 => rec,
            1 => (2u8..=4).prop_map(|threads| Case::TwoKeys { threads }),
            2 => (2usize..=6, 1u8..=4, proptest::collection::vec((any::<u16>(), 1u8..POOL as u8), 1..6)).prop_map(|(depth, readers, writes)| Case::FfiReaders { depth, readers, writes }),
        ]
        .boxed()
    }
    fn check(&self, ctx: &Ctx, case: &Case) -> Outcome {
        let mut o = Outcome::new();
        let sh = match shared() {
            Ok(s) => s,
            Err(e) => {
                vfail!(o, "cannot build the shared instance: {e}");
                return o;
            }
        };
        match case {
            Case::Burst { calls, fresh } => {
                o.label(format!("burst/{}-threads{}", calls.len(), if *fresh { "/fresh-instance" } else { "" }));
                let want: Vec<Vec<u8>> = calls.iter().map(|c| reference(sh, c)).collect();
                if let Some(t) = want.iter().position(|w| w.first() == Some(&2)) {
                    vfail!(o, "call {:?} panicked when made sequentially on the long-lived instance: {}", calls[t], String::from_utf8_lossy(&want[t][1..]));
                    return o;
                }
                let reps: Vec<u32> = calls.iter().map(|c| match c {
                    RCall::Verify(..) | RCall::VerifyRln(..) | RCall::VerifyRoots(..) => ctx.tier.pick(6, 20),
                    RCall::KeyGen | RCall::SeededKeyGen(_) | RCall::SeededExtKeyGen(_) | RCall::Hash(_) | RCall::Recover(..) | RCall::GetEmpty | RCall::Witness(_) | RCall::WitnessDamagedGraph(_) => ctx.tier.pick(40, 200),
                    _ => ctx.tier.pick(1500, 6000),
                }).collect();
                let owned;
                let inst: &RLN = if *fresh {
                    owned = match instance_from(&sh.msgs) {
                        Ok(r) => r,
                        Err(e) => {
                            vfail!(o, "cannot build a fresh instance: {e}");
                            return o;
                        }
                    };
                    &owned
                } else {
                    &sh.rln
                };
                let res = run_burst(inst, &sh.msgs, calls, &want, &reps, Duration::from_secs(300));
                for (t, (bad, first)) in res.iter().enumerate() {
                    o.evals += reps[t] as u64;
                    o.count("burst_calls", reps[t] as u64);
                    if *bad > 0 {
                        let f = first.clone().unwrap_or_default();
                        vfail!(o, "{} threads each repeating one call: thread {t} {:?}: {bad} of {} results differ from the sequential result {}; first differing result {}", calls.len(), calls[t], reps[t], hexs(&want[t]), if f.first() == Some(&2) { String::from_utf8_lossy(&f[1..]).to_string() } else { hexs(&f) });
                        return o;
                    }
                }
                o.nontrivial = calls.len() >= 4;
            }
            Case::Shared { lists, fresh } => {
                o.label(format!("shared/{}-threads{}", lists.len(), if *fresh { "/fresh-instance" } else { "" }));
                // sequential reference: the same calls one at a time on the long-lived reference instance
                let want: Vec<Vec<Vec<u8>>> = lists.iter().map(|l| l.iter().map(|(c, _)| reference(sh, c)).collect()).collect();
                let owned;
                let inst: &RLN = if *fresh {
                    owned = match instance_from(&sh.msgs) {
                        Ok(r) => r,
                        Err(e) => {
                            vfail!(o, "cannot build a fresh instance: {e}");
                            return o;
                        }
                    };
                    &owned
                } else {
                    &sh.rln
                };
                let got = run_threads(inst, &sh.msgs, lists, Duration::from_secs(120)).unwrap();
                for (t, (g, w)) in got.iter().zip(want.iter()).enumerate() {
                    for (k, (a, b)) in g.iter().zip(w.iter()).enumerate() {
                        o.evals += 1;
                        let c = &lists[t][k].0;
                        o.label(format!("call/{}", c.kind()));
                        if a.first() == Some(&2) {
                            vfail!(o, "thread {t} call {k} {c:?} panicked under concurrency: {}", String::from_utf8_lossy(&a[1..]));
                            return o;
                        }
                        if b.first() == Some(&2) {
                            vfail!(o, "call {c:?} panicked when made sequentially on the long-lived instance (after the calls of earlier cases in this process): {}", String::from_utf8_lossy(&b[1..]));
                            return o;
                        }
                        if a != b {
                            vfail!(o, "thread {t} of {} call {k} {c:?}: concurrent result {} differs from the sequential result {}", lists.len(), hexs(a), hexs(b));
                            return o;
                        }
                    }
                }
                o.nontrivial = concurrent_same_kind(lists);
            }
            Case::Lazy { lists } => {
                o.label(format!("lazy/{}-threads", lists.len()));
                let dir = ctx.tmpdir.join(format!("c18-lazy-{:016x}-{:?}", case_hash(case), std::thread::current().id()));
                let _ = std::fs::create_dir_all(&dir);
                let file = dir.join("job.json");
                let job = LazyJob { msgs: sh.msgs.clone(), lists: lists.clone() };
                let _ = std::fs::write(&file, serde_json::to_string(&serde_json::json!({"case": job})).unwrap());
                let out = std::process::Command::new(std::env::current_exe().unwrap())
                    .arg("c18-lazy-child")
                    .arg(&file)
                    .env("TMPDIR", &dir)
                    .stdin(std::process::Stdio::null())
                    .stderr(std::process::Stdio::null())
                    .output();
                let _ = std::fs::remove_dir_all(&dir);
                let out = match out {
                    Ok(x) => x,
                    Err(e) => {
                        o.label(format!("lazy-child-not-started: {e}"));
                        return o;
                    }
                };
                let text = String::from_utf8_lossy(&out.stdout).to_string();
                if !out.status.success() || !text.lines().any(|l| l == "END") {
                    vfail!(o, "fresh process, {} threads touching the lazily initialised globals at once: the process did not complete (status {:?}): {}", lists.len(), out.status, truncate(&text, 300));
                    return o;
                }
                for line in text.lines() {
                    let mut it = line.split_whitespace();
                    match it.next() {
                        Some("R") => {
                            let t: usize = it.next().unwrap().parse().unwrap();
                            let k: usize = it.next().unwrap().parse().unwrap();
                            let hexv = it.next().unwrap_or("");
                            let c = &lists[t][k].0;
                            let want = reference(sh, c);
                            let wanth: String = want.iter().map(|x| format!("{x:02x}")).collect();
                            o.evals += 1;
                            if hexv.starts_with("02") || want.first() == Some(&2) {
                                vfail!(o, "fresh process, thread {t} call {k} {c:?} panicked (fresh process: {}; sequential: {})", truncate(hexv, 60), truncate(&wanth, 60));
                                return o;
                            }
                            if hexv != wanth {
                                vfail!(o, "fresh process, thread {t} call {k} {c:?}: result {} differs from the sequential result {}", truncate(hexv, 100), truncate(&wanth, 100));
                                return o;
                            }
                        }
                        Some("E") => {
                            vfail!(o, "fresh process: a thread failed to build its instance: {line}");
                            return o;
                        }
                        _ => {}
                    }
                }
                o.nontrivial = concurrent_same_kind(lists);
            }
            Case::FfiReaders { depth, readers, writes } => {
                o.label(format!("ffi-readers/{readers}-threads"));
                run_ffi_readers(*depth, *readers as usize, writes, &mut o);
                o.nontrivial = *readers >= 2 && writes.len() >= 2;
            }
            Case::TwoKeys { threads } => {
                o.label(format!("two-keys/{threads}-threads"));
                run_two_keys(sh, *threads as usize, &mut o);
                o.nontrivial = *threads >= 2;
            }
            Case::Recreate { api, depth, cfg, n, writes, handoff_ms, other_height } => {
                o.label(format!("recreate/{api:?}"));
                let base = ctx.tmpdir.join(format!("c18-rec-{:016x}-{:?}", case_hash(case), std::thread::current().id()));
                let _ = std::fs::remove_dir_all(&base);
                let c16case = super::c16::Case { depth: *depth, cfg: *cfg, api: *api, ops: vec![], mode: super::c16::Mode::NoFault };
                let mut st = Store::new(&c16case, &base);
                let mut m = TreeModel::new(*depth, Fr::from(0u64));
                if let Err(e) = st.open().map_err(|p| p.0).and_then(|r| r) {
                    vfail!(o, "cannot create the persistent instance: {e}");
                    return o;
                }
                for round in 0..*n {
                    // one acknowledged, flushed write per round, then drop and re-create at once
                    let (sel, v) = writes[round as usize % writes.len()];
                    let i = pick_index(sel.wrapping_add(round as u16 * 977), m.cap());
                    let val = pool_value(v);
                    let b: &mut dyn Backend = st.bm();
                    if let Some(Ok(Ok(()))) = b.apply(&ROp::Set(i, val)) {
                        m.set(i, val);
                    } else {
                        vfail!(o, "round {round}: set({i}) failed on the persistent instance");
                        break;
                    }
                    if !matches!(b.apply(&ROp::Flush), Some(Ok(Ok(())))) {
                        vfail!(o, "round {round}: flush failed");
                        break;
                    }
                    if *handoff_ms > 0 {
                        // hand-over: the new instance is being constructed (by another thread) while the
                        // old one is released only `handoff_ms` later — the storage lock is still held
                        // when the re-creation starts
                        o.label("recreate/hand-over");
                        let t0 = Instant::now();
                        let res: Result<(), String> = std::thread::scope(|sc| {
                            let (c16ref, baseref, mref) = (&c16case, &base, &m);
                            let h = sc.spawn(move || -> Result<(), String> {
                                let mut st2 = Store::new(c16ref, baseref);
                                match st2.open() {
                                    Ok(Ok(())) => {}
                                    Ok(Err(e)) => return Err(format!("re-creating the instance while the previous one is being released failed: {e}")),
                                    Err(p) => return Err(format!("re-creating the instance panicked: {}", p.0)),
                                }
                                let focus = super::trees::Focus { leaves: true, roots: true, mark: true, flags: false, metadata: false };
                                let r = super::trees::compare(st2.bm(), mref, focus, &[]).map(|_| ()).map_err(|e| format!("the re-created instance does not hold the persisted state: {e}"));
                                st2.close();
                                r
                            });
                            std::thread::sleep(Duration::from_millis(*handoff_ms as u64));
                            st.close();
                            h.join().unwrap_or_else(|_| Err("the re-creating thread panicked".into()))
                        });
                        if t0.elapsed() > Duration::from_secs(60) {
                            println!("INCONCLUSIVE property=C18 re-creating an instance during a hand-over took {:?}", t0.elapsed());
                            std::process::exit(2);
                        }
                        if let Err(e) = res {
                            vfail!(o, "round {round} (old instance released {handoff_ms} ms after the re-creation started): {e}");
                            break;
                        }
                        o.evals += 1;
                        // continue with a freshly opened instance on this thread
                        if !matches!(st.open(), Ok(Ok(()))) {
                            vfail!(o, "round {round}: reopening after the hand-over failed");
                            break;
                        }
                        continue;
                    }
                    st.close();
                    let t0 = Instant::now();
                    let r = st.open();
                    let dt = t0.elapsed();
                    if dt > Duration::from_secs(60) {
                        println!("INCONCLUSIVE property=C18 re-creating a just-dropped instance took {dt:?}");
                        std::process::exit(2);
                    }
                    match r {
                        Ok(Ok(())) => {}
                        Ok(Err(e)) => {
                            vfail!(o, "round {round}: re-creating the instance right after the previous one was dropped failed: {e}");
                            break;
                        }
                        Err(p) => {
                            vfail!(o, "round {round}: re-creating the instance panicked: {}", p.0);
                            break;
                        }
                    }
                    o.evals += 1;
                    let focus = super::trees::Focus { leaves: true, roots: true, mark: true, flags: false, metadata: false };
                    if let Err(e) = super::trees::compare(st.bm(), &m, focus, &[]) {
                        vfail!(o, "round {round}: the re-created instance does not hold the persisted state: {e}");
                        break;
                    }
                }
                st.close();
                if *other_height && !o.failed() {
                    // the location now holds a tree of height `depth`: creating an instance of another
                    // height on it must come back (with an instance or an error) in bounded time
                    o.label("recreate/other-height");
                    let other = super::c16::Case { depth: *depth + 1, cfg: *cfg, api: *api, ops: vec![], mode: super::c16::Mode::NoFault };
                    let (tx, rx) = std::sync::mpsc::channel::<Duration>();
                    let baseref = &base;
                    std::thread::scope(|sc| {
                        sc.spawn(move || {
                            let t0 = Instant::now();
                            let mut st2 = Store::new(&other, baseref);
                            let _ = st2.open();
                            st2.close();
                            let _ = tx.send(t0.elapsed());
                        });
                        if rx.recv_timeout(Duration::from_secs(60)).is_err() {
                            println!("INCONCLUSIVE property=C18 creating an instance of another height on a location that holds a tree did not return within 60 s");
                            std::process::exit(2);
                        }
                    });
                    o.evals += 1;
                }
                let _ = std::fs::remove_dir_all(&base);
                o.nontrivial = *n >= 10 || *handoff_ms > 0;
            }
        }
        o
    }
    fn sample_view(&self, case: &Case) -> serde_json::Value {
        match case {
            Case::Shared { lists, fresh } => serde_json::json!({"shared_threads": lists.len(), "fresh_instance": fresh, "calls_per_thread": lists.iter().map(|l| l.iter().map(|(c, j)| format!("{}~{j}", c.kind())).collect::<Vec<_>>()).collect::<Vec<_>>()}),
            Case::Lazy { lists } => serde_json::json!({"fresh_process_threads": lists.len(), "calls_per_thread": lists.iter().map(|l| l.iter().map(|(c, _)| c.kind()).collect::<Vec<_>>()).collect::<Vec<_>>()}),
            other => serde_json::to_value(other).unwrap_or_default(),
        }
    }
}
