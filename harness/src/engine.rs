//! Engine: proptest TestRunner wrapper, sharding, statistics, evidence, replay, known findings.
//! One run = pure function of (code under test, VERIF_SEED, tier).

use proptest::strategy::{BoxedStrategy, Strategy};
use proptest::test_runner::{Config, RngAlgorithm, TestCaseError, TestError, TestRng, TestRunner};
use serde::de::DeserializeOwned;
use serde::Serialize;
use serde_json::{json, Value};
use std::cell::RefCell;
use std::collections::{BTreeMap, HashSet};
use std::fmt::Debug;
use std::panic::{catch_unwind, AssertUnwindSafe};
use std::path::{Path, PathBuf};
use std::sync::atomic::{AtomicBool, Ordering};
use std::sync::{Arc, Mutex};
use std::time::Instant;

pub const VERIF_ROOT: &str = "/verif";

/// where evidence and replay files go: /verif, or $VERIF_OUT for side runs (multi-seed silence runs,
/// background campaigns) that must not overwrite the registered evidence
pub fn out_root() -> PathBuf {
    match std::env::var("VERIF_OUT") {
        Ok(d) if !d.is_empty() => PathBuf::from(d),
        _ => PathBuf::from(VERIF_ROOT),
    }
}

#[derive(Clone, Copy, PartialEq, Eq, Debug)]
pub enum Tier {
    Quick,
    Thorough,
}

impl Tier {
    pub fn name(&self) -> &'static str {
        match self {
            Tier::Quick => "quick",
            Tier::Thorough => "thorough",
        }
    }
    pub fn pick<T>(&self, q: T, t: T) -> T {
        match self {
            Tier::Quick => q,
            Tier::Thorough => t,
        }
    }
}

// ---------------------------------------------------------------------------------------------
// guarded calls: a panic in the code under test is an outcome, never a harness crash
// ---------------------------------------------------------------------------------------------

thread_local! {
    static LAST_PANIC: RefCell<Option<String>> = RefCell::new(None);
    /// > 0 while inside `guarded` (a panic there is an outcome); 0 = a panic of the harness itself
    static GUARD_DEPTH: std::cell::Cell<u32> = const { std::cell::Cell::new(0) };
}

pub fn install_quiet_panic_hook() {
    std::panic::set_hook(Box::new(|info| {
        let msg = if let Some(s) = info.payload().downcast_ref::<&str>() {
            s.to_string()
        } else if let Some(s) = info.payload().downcast_ref::<String>() {
            s.clone()
        } else {
            "<non-string panic>".to_string()
        };
        let loc = info
            .location()
            .map(|l| format!("{}:{}", l.file(), l.line()))
            .unwrap_or_default();
        if GUARD_DEPTH.with(|d| d.get()) == 0 {
            // not inside a guarded call into the code under test: a defect of the harness, show it
            eprintln!("HARNESS PANIC: {msg} @ {loc}");
        }
        LAST_PANIC.with(|p| *p.borrow_mut() = Some(format!("{msg} @ {loc}")));
    }));
}

#[derive(Debug, Clone)]
pub struct Panicked(pub String);

/// Run `f`, converting a panic into `Err(Panicked(msg))`.
pub fn guarded<T>(f: impl FnOnce() -> T) -> Result<T, Panicked> {
    GUARD_DEPTH.with(|d| d.set(d.get() + 1));
    let r = catch_unwind(AssertUnwindSafe(f));
    GUARD_DEPTH.with(|d| d.set(d.get().saturating_sub(1)));
    match r {
        Ok(v) => Ok(v),
        Err(_) => {
            let m = LAST_PANIC
                .with(|p| p.borrow_mut().take())
                .unwrap_or_else(|| "<panic>".into());
            Err(Panicked(m))
        }
    }
}

// ---------------------------------------------------------------------------------------------
// a second calling thread: every interpreter thread owns one long-lived helper thread; `on_helper`
// runs a closure there and waits for it (strictly one call at a time)
// ---------------------------------------------------------------------------------------------

struct JobPtr(*mut (dyn FnMut() + 'static));
unsafe impl Send for JobPtr {}

struct Helper {
    tx: std::sync::mpsc::Sender<JobPtr>,
    done: std::sync::mpsc::Receiver<()>,
}

thread_local! {
    static HELPER: RefCell<Option<Helper>> = const { RefCell::new(None) };
}

/// Run `f` on the calling thread's helper thread and wait for the result. The hand-over through the
/// channels orders everything before the call before it and everything in it before the return, so
/// the code under test sees two threads of one caller taking turns. A panic in `f` is re-raised here.
pub fn on_helper<R>(f: impl FnOnce() -> R) -> R {
    let mut slot: Option<(std::thread::Result<R>, Option<String>)> = None;
    let mut fopt = Some(f);
    {
        let mut job = || {
            let f = fopt.take().unwrap();
            // panics are carried back to the caller (its own `guarded` decides what they mean)
            GUARD_DEPTH.with(|d| d.set(d.get() + 1));
            let r = catch_unwind(AssertUnwindSafe(f));
            GUARD_DEPTH.with(|d| d.set(d.get().saturating_sub(1)));
            let msg = if r.is_err() { LAST_PANIC.with(|p| p.borrow_mut().take()) } else { None };
            slot = Some((r, msg));
        };
        let r: &mut dyn FnMut() = &mut job;
        // the borrow is erased for the channel; this function does not return before the job ran
        let raw: *mut (dyn FnMut() + 'static) = unsafe { std::mem::transmute(r as *mut dyn FnMut()) };
        HELPER.with(|h| {
            let mut h = h.borrow_mut();
            if h.is_none() {
                let (tx, rx) = std::sync::mpsc::channel::<JobPtr>();
                let (dtx, drx) = std::sync::mpsc::channel::<()>();
                std::thread::Builder::new()
                    .name("verif-helper".into())
                    .spawn(move || {
                        while let Ok(j) = rx.recv() {
                            unsafe { (*j.0)() };
                            if dtx.send(()).is_err() {
                                break;
                            }
                        }
                    })
                    .expect("helper thread");
                *h = Some(Helper { tx, done: drx });
            }
            let hh = h.as_ref().unwrap();
            hh.tx.send(JobPtr(raw)).expect("helper thread gone");
            hh.done.recv().expect("helper thread gone");
        });
    }
    match slot.expect("helper did not run the job") {
        (Ok(r), _) => r,
        (Err(p), msg) => {
            // the message was recorded on the helper thread; hand it to this thread's `guarded`
            LAST_PANIC.with(|l| *l.borrow_mut() = msg);
            std::panic::resume_unwind(p)
        }
    }
}

// ---------------------------------------------------------------------------------------------
// known findings
// ---------------------------------------------------------------------------------------------

#[derive(Clone, Debug)]
pub struct KnownLine {
    pub property: String,
    pub sig: String,
    pub replay: Option<String>,
    pub what: String,
}

#[derive(Clone, Debug, Default)]
pub struct KnownFindings {
    pub known: Vec<KnownLine>,
    pub fixed: Vec<String>,
}

impl KnownFindings {
    pub fn load() -> Self {
        let path = Path::new(VERIF_ROOT).join("KNOWN_FINDINGS.txt");
        let mut kf = KnownFindings::default();
        let Ok(text) = std::fs::read_to_string(path) else {
            return kf;
        };
        for line in text.lines() {
            let line = line.trim();
            if line.is_empty() || line.starts_with('#') {
                continue;
            }
            if let Some(rest) = line.strip_prefix("known:") {
                let (head, what) = match rest.split_once("::") {
                    Some((h, w)) => (h, w.trim().to_string()),
                    None => (rest, String::new()),
                };
                let mut property = String::new();
                let mut sig = String::new();
                let mut replay = None;
                for tok in head.split_whitespace() {
                    if let Some(v) = tok.strip_prefix("property=") {
                        property = v.to_string();
                    } else if let Some(v) = tok.strip_prefix("sig=") {
                        sig = v.to_string();
                    } else if let Some(v) = tok.strip_prefix("replay=") {
                        replay = Some(v.to_string());
                    }
                }
                kf.known.push(KnownLine {
                    property,
                    sig,
                    replay,
                    what,
                });
            } else if let Some(rest) = line.strip_prefix("fixed:") {
                kf.fixed.push(rest.trim().to_string());
            }
        }
        kf
    }
}

// ---------------------------------------------------------------------------------------------
// context and outcome
// ---------------------------------------------------------------------------------------------

pub struct Ctx {
    pub id: String,
    pub tier: Tier,
    pub seed: u64,
    pub known: KnownFindings,
    /// strict = exclusions of known classes are switched off (used to confirm known findings and
    /// when replaying a file explicitly with --strict)
    pub strict: bool,
    pub tmpdir: PathBuf,
}

impl Ctx {
    /// Is `sig` listed as a known finding (for any property)? In strict mode nothing is excluded.
    pub fn is_known(&self, sig: &str) -> bool {
        !self.strict && self.known.known.iter().any(|k| k.sig == sig)
    }
}

#[derive(Default, Debug, Clone)]
pub struct Outcome {
    pub labels: Vec<String>,
    pub nontrivial: bool,
    pub fail: Option<String>,
    pub excluded: Vec<String>,
    /// number of implementation evaluations performed inside this case (>=1)
    pub evals: u64,
    /// named counters summed over all cases into coverage.counters
    pub counters: BTreeMap<String, u64>,
}

impl Outcome {
    pub fn new() -> Self {
        Outcome {
            evals: 1,
            ..Default::default()
        }
    }
    pub fn label(&mut self, l: impl Into<String>) {
        let l = l.into();
        if !self.labels.contains(&l) {
            self.labels.push(l);
        }
    }
    pub fn fail(&mut self, msg: impl Into<String>) {
        if self.fail.is_none() {
            self.fail = Some(msg.into());
        }
    }
    pub fn count(&mut self, name: impl Into<String>, n: u64) {
        *self.counters.entry(name.into()).or_default() += n;
    }
    pub fn exclude(&mut self, sig: impl Into<String>) {
        self.excluded.push(sig.into());
    }
    pub fn failed(&self) -> bool {
        self.fail.is_some()
    }
}

#[macro_export]
macro_rules! vfail {
    ($o:expr, $($arg:tt)*) => {{ $o.fail(format!($($arg)*)); }};
}

#[derive(Clone, Copy, Debug)]
pub struct Plan {
    pub shards: usize,
    pub cases_per_shard: u32,
    pub max_shrink_iters: u32,
    pub watchdog_s: u64,
}

pub trait Property: Sync {
    type Case: Debug + Clone + Serialize + DeserializeOwned + Send + 'static;
    fn id(&self) -> &'static str;
    fn rule(&self) -> String;
    fn level(&self) -> &'static str {
        "exploration"
    }
    fn assumptions(&self) -> Vec<String> {
        vec![]
    }
    fn plan(&self, tier: Tier) -> Plan;
    fn strategy(&self, tier: Tier, shard: usize) -> BoxedStrategy<Self::Case>;
    fn check(&self, ctx: &Ctx, case: &Self::Case) -> Outcome;
    /// validate the oracle itself (KATs of the reference models); Err => exit 2
    fn selftest(&self, _ctx: &Ctx) -> Result<(), String> {
        Ok(())
    }
    /// deterministic, non-generated part (exhaustive grids, fixed boundary tables). Returns
    /// (evaluations, nontrivial distinct, Option<(failure message, replay case)>)
    fn fixed_part(&self, _ctx: &Ctx, _stats: &mut Stats) -> Option<(String, Option<Self::Case>)> {
        None
    }
    fn extra_evidence(&self, _ctx: &Ctx) -> Value {
        json!({})
    }
    /// compact rendering of a case for evidence samples
    fn sample_view(&self, case: &Self::Case) -> Value {
        serde_json::to_value(case).unwrap_or(Value::Null)
    }
}

// ---------------------------------------------------------------------------------------------
// statistics
// ---------------------------------------------------------------------------------------------

#[derive(Default)]
pub struct Stats {
    pub cases: u64,
    pub evaluations: u64,
    pub labels: BTreeMap<String, u64>,
    pub nontrivial_hashes: HashSet<u64>,
    pub excluded: BTreeMap<String, u64>,
    pub samples: Vec<Value>,
    pub exhaustive: bool,
    pub extra: BTreeMap<String, Value>,
    pub counters: BTreeMap<String, u64>,
}

impl Stats {
    pub fn merge(&mut self, o: Stats) {
        self.cases += o.cases;
        self.evaluations += o.evaluations;
        for (k, v) in o.labels {
            *self.labels.entry(k).or_default() += v;
        }
        self.nontrivial_hashes.extend(o.nontrivial_hashes);
        for (k, v) in o.excluded {
            *self.excluded.entry(k).or_default() += v;
        }
        for s in o.samples {
            if self.samples.len() < 6 {
                self.samples.push(s);
            }
        }
        self.exhaustive |= o.exhaustive;
        self.extra.extend(o.extra);
        for (k, v) in o.counters {
            *self.counters.entry(k).or_default() += v;
        }
    }
    pub fn record(&mut self, out: &Outcome, case_hash: u64, sample: impl FnOnce() -> Value) {
        self.cases += 1;
        self.evaluations += out.evals.max(1);
        for l in &out.labels {
            *self.labels.entry(l.clone()).or_default() += 1;
        }
        for e in &out.excluded {
            *self.excluded.entry(e.clone()).or_default() += 1;
        }
        for (k, v) in &out.counters {
            *self.counters.entry(k.clone()).or_default() += *v;
        }
        if out.nontrivial {
            let fresh = self.nontrivial_hashes.insert(case_hash);
            if fresh && self.samples.len() < 3 {
                self.samples.push(sample());
            }
        }
    }
}

pub fn fnv1a(bytes: &[u8]) -> u64 {
    let mut h: u64 = 0xcbf29ce484222325;
    for b in bytes {
        h ^= *b as u64;
        h = h.wrapping_mul(0x100000001b3);
    }
    h
}

pub fn case_hash<C: Serialize>(c: &C) -> u64 {
    fnv1a(serde_json::to_string(c).unwrap_or_default().as_bytes())
}

pub fn seed_bytes(seed: u64, id: &str, shard: usize) -> [u8; 32] {
    let mut out = [0u8; 32];
    let mut x = fnv1a(format!("{id}/{shard}/{seed}").as_bytes()) ^ seed.rotate_left(17);
    for chunk in out.chunks_mut(8) {
        // splitmix64
        x = x.wrapping_add(0x9E3779B97F4A7C15);
        let mut z = x;
        z = (z ^ (z >> 30)).wrapping_mul(0xBF58476D1CE4E5B9);
        z = (z ^ (z >> 27)).wrapping_mul(0x94D049BB133111EB);
        z ^= z >> 31;
        chunk.copy_from_slice(&z.to_le_bytes());
    }
    out
}

pub fn rng_algo() -> RngAlgorithm {
    match std::env::var("VERIF_RNG").as_deref() {
        Ok("xorshift") => RngAlgorithm::XorShift,
        _ => RngAlgorithm::ChaCha,
    }
}

pub fn make_runner(seed: u64, id: &str, shard: usize, cases: u32, max_shrink: u32) -> TestRunner {
    let algo = rng_algo();
    let sb = seed_bytes(seed, id, shard);
    let rng = match algo {
        RngAlgorithm::XorShift => TestRng::from_seed(algo, &sb[..16]),
        _ => TestRng::from_seed(algo, &sb),
    };
    let config = Config {
        cases,
        max_shrink_iters: max_shrink,
        failure_persistence: None,
        rng_algorithm: algo,
        max_global_rejects: 1 << 20,
        max_local_rejects: 1 << 20,
        ..Config::default()
    };
    TestRunner::new_with_rng(config, rng)
}

// ---------------------------------------------------------------------------------------------
// evidence & replay files
// ---------------------------------------------------------------------------------------------

pub struct RunResult {
    pub stats: Stats,
    pub violation: Option<(String, PathBuf)>,
    pub inconclusive: Option<String>,
}

pub fn write_replay<C: Serialize>(id: &str, case: &C, reason: &str, ctx: &Ctx) -> PathBuf {
    let dir = out_root().join("replays");
    let _ = std::fs::create_dir_all(&dir);
    let h = case_hash(case);
    let path = dir.join(format!("{id}-{h:016x}.json"));
    let v = json!({
        "property": id,
        "reason": reason,
        "seed": ctx.seed,
        "tier": ctx.tier.name(),
        "case": serde_json::to_value(case).unwrap_or(Value::Null),
    });
    let _ = std::fs::write(&path, serde_json::to_string_pretty(&v).unwrap());
    path
}

pub fn load_replay<C: DeserializeOwned>(path: &Path) -> Result<C, String> {
    let text = std::fs::read_to_string(path).map_err(|e| format!("{path:?}: {e}"))?;
    let v: Value = serde_json::from_str(&text).map_err(|e| format!("{path:?}: {e}"))?;
    let case = v.get("case").cloned().unwrap_or(v);
    serde_json::from_value(case).map_err(|e| format!("{path:?}: {e}"))
}

#[allow(clippy::too_many_arguments)]
pub fn write_evidence(
    id: &str,
    ctx: &Ctx,
    level: &str,
    rule: &str,
    assumptions: &[String],
    stats: &Stats,
    violations: i64,
    wall_s: f64,
    extra: Value,
    status: &str,
) {
    let dir = out_root().join("evidence");
    let _ = std::fs::create_dir_all(&dir);
    let mut coverage = json!({
        "evaluations": stats.evaluations.max(stats.cases),
        "cases_generated": stats.cases,
        "distinct_nontrivial": stats.nontrivial_hashes.len(),
        "rule": rule,
        "samples": stats.samples,
        "label_histogram": stats.labels,
        "excluded_known": stats.excluded,
        "counters": stats.counters,
        "exhaustive": stats.exhaustive,
        "status": status,
        "rng": format!("{:?}", rng_algo()),
    });
    if let (Some(c), Some(e)) = (coverage.as_object_mut(), extra.as_object()) {
        for (k, v) in e {
            c.insert(k.clone(), v.clone());
        }
    }
    if let Some(c) = coverage.as_object_mut() {
        for (k, v) in &stats.extra {
            c.insert(k.clone(), v.clone());
        }
    }
    let ev = json!({
        "property_id": id,
        "tier": ctx.tier.name(),
        "seed": ctx.seed,
        "level": level,
        "coverage": coverage,
        "assumptions": assumptions,
        "wall_s": wall_s,
        "violations": violations,
    });
    let path = dir.join(format!("{id}.json"));
    let tmp = dir.join(format!("{id}.json.tmp"));
    let _ = std::fs::write(&tmp, serde_json::to_string_pretty(&ev).unwrap());
    let _ = std::fs::rename(&tmp, &path);
}

// ---------------------------------------------------------------------------------------------
// the generic runner
// ---------------------------------------------------------------------------------------------

pub fn cleanup_tmp(ctx: &Ctx) {
    let _ = std::fs::remove_dir_all(&ctx.tmpdir);
}

pub fn start_watchdog(secs: u64, id: String, tmpdir: PathBuf, done: Arc<AtomicBool>) {
    std::thread::spawn(move || {
        let start = Instant::now();
        while start.elapsed().as_secs() < secs {
            std::thread::sleep(std::time::Duration::from_millis(200));
            if done.load(Ordering::SeqCst) {
                return;
            }
        }
        println!("INCONCLUSIVE property={id} watchdog expired after {secs}s");
        let _ = std::fs::remove_dir_all(&tmpdir);
        std::process::exit(2);
    });
}

/// Runs known-finding confirmation, regress replays, the fixed part and the generated part.
pub fn run_property<P: Property>(p: &P, ctx: &Ctx) -> i32 {
    let t0 = Instant::now();
    let id = p.id();
    let plan = p.plan(ctx.tier);
    let done = Arc::new(AtomicBool::new(false));
    start_watchdog(plan.watchdog_s, id.to_string(), ctx.tmpdir.clone(), done.clone());

    let finish = |stats: &Stats, violations: i64, status: &str| {
        write_evidence(
            id,
            ctx,
            p.level(),
            &p.rule(),
            &p.assumptions(),
            stats,
            violations,
            t0.elapsed().as_secs_f64(),
            p.extra_evidence(ctx),
            status,
        );
        done.store(true, Ordering::SeqCst);
    };

    let mut total = Stats::default();

    if let Err(e) = p.selftest(ctx) {
        println!("INCONCLUSIVE property={id} oracle self-test failed: {e}");
        finish(&total, 0, "oracle-selftest-failed");
        return 2;
    }

    // 1. confirm known findings (strict mode: exclusions off) --------------------------------
    let strict_ctx = Ctx {
        id: ctx.id.clone(),
        tier: ctx.tier,
        seed: ctx.seed,
        known: ctx.known.clone(),
        strict: true,
        tmpdir: ctx.tmpdir.clone(),
    };
    for k in ctx.known.known.iter().filter(|k| k.property == id) {
        let Some(rp) = &k.replay else {
            println!("KNOWN-FINDING: property={id} sig={} {}", k.sig, k.what);
            continue;
        };
        let path = Path::new(VERIF_ROOT).join(rp);
        match load_replay::<P::Case>(&path) {
            Ok(case) => {
                let out = p.check(&strict_ctx, &case);
                if let Some(msg) = out.fail {
                    println!(
                        "KNOWN-FINDING: property={id} sig={} {} [reproduced: {}]",
                        k.sig,
                        k.what,
                        truncate(&msg, 200)
                    );
                } else {
                    println!(
                        "NOTE property={id} sig={} listed as known but its replay no longer fails",
                        k.sig
                    );
                }
            }
            Err(e) => {
                println!("INCONCLUSIVE property={id} cannot load known-finding replay: {e}");
                finish(&total, 0, "bad-known-replay");
                return 2;
            }
        }
    }

    // 2. regress replays (normal mode) ---------------------------------------------------------
    let rdir = Path::new(VERIF_ROOT).join("regress").join(id);
    // VERIF_NO_REGRESS=1 (used by tools/seed_sweep.sh): skip the saved replays, so that the sweep
    // measures what the generators find on their own
    let skip_regress = std::env::var("VERIF_NO_REGRESS").map(|v| v == "1").unwrap_or(false);
    if let (false, Ok(rd)) = (skip_regress, std::fs::read_dir(&rdir)) {
        let mut files: Vec<PathBuf> = rd
            .filter_map(|e| e.ok().map(|e| e.path()))
            .filter(|p| p.extension().map(|e| e == "json").unwrap_or(false))
            .collect();
        files.sort();
        for f in files {
            let name = f.file_name().unwrap().to_string_lossy().to_string();
            if name.starts_with("kf-") {
                continue; // known-finding replays are handled above
            }
            match load_replay::<P::Case>(&f) {
                Ok(case) => {
                    let out = p.check(ctx, &case);
                    let h = case_hash(&case);
                    let mut o2 = out.clone();
                    o2.label("regress-replay");
                    total.record(&o2, h, || p.sample_view(&case));
                    if let Some(msg) = out.fail {
                        println!("VIOLATION property={id} replay={}", f.display());
                        println!("  reason: {}", truncate(&msg, 2000));
                        finish(&total, 1, "violation");
                        return 1;
                    }
                }
                Err(e) => {
                    println!("INCONCLUSIVE property={id} cannot load regress file: {e}");
                    finish(&total, 0, "bad-regress-file");
                    return 2;
                }
            }
        }
    }

    // 3. fixed (enumerated) part ------------------------------------------------------------------
    if let Some((msg, case)) = p.fixed_part(ctx, &mut total) {
        let path = match case {
            Some(c) => write_replay(id, &c, &msg, ctx),
            None => out_root().join("replays").join("none"),
        };
        println!("VIOLATION property={id} replay={}", path.display());
        println!("  reason: {}", truncate(&msg, 2000));
        finish(&total, 1, "violation");
        return 1;
    }

    // 4. generated part ---------------------------------------------------------------------------
    let violation: Mutex<Option<(String, P::Case)>> = Mutex::new(None);
    let merged: Mutex<Stats> = Mutex::new(Stats::default());
    let stop = AtomicBool::new(false);
    std::thread::scope(|s| {
        for shard in 0..plan.shards {
            let violation = &violation;
            let merged = &merged;
            let stop = &stop;
            s.spawn(move || {
                let mut runner =
                    make_runner(ctx.seed, id, shard, plan.cases_per_shard, plan.max_shrink_iters);
                let strategy = p.strategy(ctx.tier, shard);
                let stats = RefCell::new(Stats::default());
                let failed = std::cell::Cell::new(false);
                let result = runner.run(&strategy, |case| {
                    if stop.load(Ordering::Relaxed) && !failed.get() {
                        // another shard already found a violation: finish fast
                        return Ok(());
                    }
                    let out = p.check(ctx, &case);
                    if !failed.get() {
                        let h = case_hash(&case);
                        stats.borrow_mut().record(&out, h, || p.sample_view(&case));
                    }
                    match out.fail {
                        Some(msg) => {
                            failed.set(true);
                            stop.store(true, Ordering::Relaxed);
                            Err(TestCaseError::fail(msg))
                        }
                        None => Ok(()),
                    }
                });
                merged.lock().unwrap().merge(stats.into_inner());
                match result {
                    Ok(()) => {}
                    Err(TestError::Fail(reason, value)) => {
                        let mut v = violation.lock().unwrap();
                        if v.is_none() {
                            *v = Some((reason.message().to_string(), value));
                        }
                    }
                    Err(TestError::Abort(reason)) => {
                        // generator rejected too much: tool problem, not a violation
                        println!("NOTE property={id} shard {shard} aborted: {}", reason.message());
                    }
                }
            });
        }
    });
    total.merge(merged.into_inner().unwrap());

    if let Some((reason, case)) = violation.into_inner().unwrap() {
        let path = write_replay(id, &case, &reason, ctx);
        println!("VIOLATION property={id} replay={}", path.display());
        println!("  reason: {}", truncate(&reason, 2000));
        finish(&total, 1, "violation");
        return 1;
    }

    finish(&total, 0, "held");
    println!(
        "OK property={id} tier={} seed={} cases={} evaluations={} distinct_nontrivial={} wall={:.1}s",
        ctx.tier.name(),
        ctx.seed,
        total.cases,
        total.evaluations.max(total.cases),
        total.nontrivial_hashes.len(),
        t0.elapsed().as_secs_f64()
    );
    0
}

/// Replay one file, bypassing the generator. Exit 1 + VIOLATION line if it fails.
pub fn replay_property<P: Property>(p: &P, ctx: &Ctx, path: &Path) -> i32 {
    match load_replay::<P::Case>(path) {
        Ok(case) => {
            let out = p.check(ctx, &case);
            match out.fail {
                Some(msg) => {
                    println!("VIOLATION property={} replay={}", p.id(), path.display());
                    println!("  reason: {}", truncate(&msg, 4000));
                    1
                }
                None => {
                    println!(
                        "OK property={} replay={} passes (labels {:?}, excluded {:?})",
                        p.id(),
                        path.display(),
                        out.labels,
                        out.excluded
                    );
                    0
                }
            }
        }
        Err(e) => {
            println!("INCONCLUSIVE cannot load replay: {e}");
            2
        }
    }
}

pub fn truncate(s: &str, n: usize) -> String {
    if s.len() <= n {
        s.to_string()
    } else {
        let mut end = n;
        while !s.is_char_boundary(end) {
            end -= 1;
        }
        format!("{}…", &s[..end])
    }
}

/// helper for building strategies: map a 16-bit selector monotonically onto 0..len
pub fn pick_index(sel: u16, len: usize) -> usize {
    if len == 0 {
        0
    } else {
        ((sel as usize) * len) >> 16
    }
}

pub fn boxed<S: Strategy + 'static>(s: S) -> BoxedStrategy<S::Value> {
    s.boxed()
}
