//! scratch experiments (not part of any registered check)
use rln::hashers::PoseidonHash;
use std::str::FromStr;
use zerokit_utils::pmtree;
use zerokit_utils::SledDB;
use zerokit_utils::ZerokitMerkleTree;

pub fn reopen(n: usize, threads: usize) {
    std::thread::scope(|s| {
        for t in 0..threads {
            s.spawn(move || {
                let dir = std::env::temp_dir().join(format!("exp-reopen-{t}"));
                let _ = std::fs::remove_dir_all(&dir);
                let cfgs = format!("{{\"path\": {:?}, \"temporary\": false}}", dir.to_string_lossy());
                let mk = || rln::pm_tree_adapter::PmtreeConfig::from_str(&cfgs).unwrap();
                let mut tree = rln::pm_tree_adapter::PmTree::new(3, ark_bn254::Fr::from(0u64), mk()).unwrap();
                tree.set(0, ark_bn254::Fr::from(5u64)).unwrap();
                let mut lost = 0;
                let mut loadfail = 0;
                for i in 0..n {
                    tree.close_db_connection().unwrap();
                    drop(tree);
                    // direct load to see the error
                    let c: zerokit_utils::Config = zerokit_utils::Config::new().temporary(false).path(dir.clone());
                    match pmtree::MerkleTree::<SledDB, PoseidonHash>::load(c) {
                        Ok(t) => drop(t),
                        Err(e) => {
                            loadfail += 1;
                            if loadfail < 3 {
                                println!("thread {t} iter {i}: load failed: {e:?}");
                            }
                        }
                    }
                    tree = rln::pm_tree_adapter::PmTree::new(3, ark_bn254::Fr::from(0u64), mk()).unwrap();
                    if tree.leaves_set() != 1 {
                        lost += 1;
                        tree.set(0, ark_bn254::Fr::from(5u64)).unwrap();
                    }
                }
                println!("thread {t}: lost state {lost}/{n}, direct load failures {loadfail}");
            });
        }
    });
}

pub fn timing() {
    use crate::pipeline::*;
    use std::time::Instant;
    let t = Instant::now();
    let mut r = crate::rlnh::new_rln(20);
    println!("RLN::new #1 {:?}", t.elapsed());
    let t = Instant::now();
    let r2 = crate::rlnh::new_rln(20);
    println!("RLN::new #2 {:?}", t.elapsed());
    drop(r2);
    let reqs = draw(&req_strategy(100), 1, "timing", 3);
    for req in reqs {
        let t = Instant::now();
        set_leaf_big(&mut r, req.index, &req.rate_commitment()).unwrap();
        println!("set_leaf {:?}", t.elapsed());
        let t = Instant::now();
        let mut out = vec![];
        r.generate_rln_proof(std::io::Cursor::new(req.encode()), &mut out).unwrap();
        println!("generate_rln_proof {:?}", t.elapsed());
        let t = Instant::now();
        let v = call_verify(&r, &out);
        println!("verify {:?} {:?}", t.elapsed(), v);
        let t = Instant::now();
        let wb = r.get_serialized_rln_witness(std::io::Cursor::new(req.encode())).unwrap();
        println!("get_serialized_rln_witness {:?}", t.elapsed());
        let t = Instant::now();
        let (w, _) = rln::protocol::deserialize_witness(&wb).unwrap();
        let inputs = rln::protocol::inputs_for_witness_calculation(&w).unwrap().into_iter().map(|(n, v)| (n.to_string(), v));
        let wit = rln::circuit::calculate_rln_witness(inputs, crate::rlnh::graph_bytes());
        println!("witness calc {:?} len {}", t.elapsed(), wit.len());
    }
}
