//! Ideal tree: a sparse array of leaves + written flags + high-water mark. The root is obtained by
//! hashing pairwise level by level from the default leaf (recursive fold with the all-default
//! subtree shortcut, so depth 20 is cheap). No incremental update logic at all.
//! The pair hash is the tree's own Hasher (Poseidon is judged by C09, not here); results are
//! memoised per thread.

use ark_bn254::Fr;
use std::cell::RefCell;
use std::collections::{BTreeMap, BTreeSet, HashMap};

thread_local! {
    static MEMO: RefCell<HashMap<(Fr, Fr), Fr>> = RefCell::new(HashMap::new());
}

pub fn hash2(a: &Fr, b: &Fr) -> Fr {
    MEMO.with(|m| {
        let mut m = m.borrow_mut();
        if m.len() > 1_000_000 {
            *m = HashMap::new();
        }
        *m.entry((*a, *b))
            .or_insert_with(|| rln::hashers::poseidon_hash(&[*a, *b]))
    })
}

#[derive(Clone, Debug)]
pub struct TreeModel {
    pub depth: usize,
    pub default_leaf: Fr,
    pub leaves: BTreeMap<usize, Fr>,
    pub written: BTreeSet<usize>,
    pub mark: usize,
    pub metadata: Vec<u8>,
    defaults: Vec<Fr>, // defaults[level], level 0 = root .. depth = leaf
}

#[derive(Debug, PartialEq, Eq, Clone, Copy)]
pub enum Verdict {
    Applied,
    Rejected,
    /// both Ok and Err are acceptable; state unchanged either way
    NoopEither,
}

impl TreeModel {
    pub fn new(depth: usize, default_leaf: Fr) -> Self {
        let mut defaults = vec![default_leaf; depth + 1];
        for l in (0..depth).rev() {
            defaults[l] = hash2(&defaults[l + 1], &defaults[l + 1]);
        }
        TreeModel {
            depth,
            default_leaf,
            leaves: BTreeMap::new(),
            written: BTreeSet::new(),
            mark: 0,
            metadata: vec![],
            defaults,
        }
    }
    pub fn cap(&self) -> usize {
        1usize << self.depth
    }
    pub fn get(&self, i: usize) -> Option<Fr> {
        if i < self.cap() {
            Some(*self.leaves.get(&i).unwrap_or(&self.default_leaf))
        } else {
            None
        }
    }
    /// node at `level` (0 = root, depth = leaves) with index `idx` inside that level
    pub fn node(&self, level: usize, idx: usize) -> Fr {
        let span = self.depth - level;
        let lo = idx << span;
        let hi = lo + (1usize << span);
        if self.leaves.range(lo..hi).next().is_none() {
            return self.defaults[level];
        }
        if level == self.depth {
            return self.leaves[&lo];
        }
        let l = self.node(level + 1, idx * 2);
        let r = self.node(level + 1, idx * 2 + 1);
        hash2(&l, &r)
    }
    pub fn root(&self) -> Fr {
        self.node(0, 0)
    }
    /// every node of every level, computed bottom-up once (for trees up to depth 13): levels[l][k]
    pub fn dense_levels(&self) -> Vec<Vec<Fr>> {
        let mut levels: Vec<Vec<Fr>> = vec![vec![]; self.depth + 1];
        let mut cur: Vec<Fr> = (0..self.cap()).map(|i| *self.leaves.get(&i).unwrap_or(&self.default_leaf)).collect();
        levels[self.depth] = cur.clone();
        for l in (0..self.depth).rev() {
            let next: Vec<Fr> = cur.chunks(2).map(|c| if c[0] == self.defaults[l + 1] && c[1] == self.defaults[l + 1] { self.defaults[l] } else { hash2(&c[0], &c[1]) }).collect();
            levels[l] = next.clone();
            cur = next;
        }
        levels
    }
    /// get_subtree_root(level, leaf_index) as the API defines it
    pub fn subtree_root(&self, level: usize, leaf_index: usize) -> Option<Fr> {
        if level > self.depth || leaf_index >= self.cap() {
            return None;
        }
        Some(self.node(level, leaf_index >> (self.depth - level)))
    }
    pub fn empty_list(&self) -> Vec<usize> {
        (0..self.mark).filter(|i| !self.written.contains(i)).collect()
    }
    /// siblings bottom-up and direction bits (LSB first) for a position
    pub fn proof(&self, i: usize) -> Option<(Vec<Fr>, Vec<u8>)> {
        if i >= self.cap() {
            return None;
        }
        let mut sibs = vec![];
        let mut bits = vec![];
        let mut idx = i;
        for level in (1..=self.depth).rev() {
            sibs.push(self.node(level, idx ^ 1));
            bits.push((idx & 1) as u8);
            idx >>= 1;
        }
        Some((sibs, bits))
    }

    fn write(&mut self, i: usize, v: Fr) {
        self.leaves.insert(i, v);
        self.written.insert(i);
        self.mark = self.mark.max(i + 1);
    }

    pub fn set(&mut self, i: usize, v: Fr) -> Verdict {
        if i >= self.cap() {
            return Verdict::Rejected;
        }
        self.write(i, v);
        Verdict::Applied
    }
    pub fn update_next(&mut self, v: Fr) -> Verdict {
        if self.mark >= self.cap() {
            return Verdict::Rejected;
        }
        let m = self.mark;
        self.write(m, v);
        Verdict::Applied
    }
    pub fn delete(&mut self, i: usize) -> Verdict {
        if i < self.mark {
            self.leaves.remove(&i);
            self.written.remove(&i);
            Verdict::Applied
        } else {
            Verdict::NoopEither
        }
    }
    pub fn set_range(&mut self, start: usize, vs: &[Fr]) -> Verdict {
        match start.checked_add(vs.len()) {
            Some(end) if end <= self.cap() => {
                for (k, v) in vs.iter().enumerate() {
                    self.write(start + k, *v);
                }
                Verdict::Applied
            }
            _ => Verdict::Rejected,
        }
    }
    /// the documented batch semantics: reset each removed position, then write the leaves.
    /// `Rejected` when there is nothing to do or the written range does not fit.
    pub fn batch_fits(&self, start: usize, n: usize) -> bool {
        matches!(start.checked_add(n), Some(end) if end <= self.cap())
    }
    pub fn override_range(&mut self, start: usize, vs: &[Fr], removals: &[usize]) -> Verdict {
        if vs.is_empty() && removals.is_empty() {
            return Verdict::Rejected;
        }
        // the start position only matters when there is something to write
        if !vs.is_empty() && !self.batch_fits(start, vs.len()) {
            return Verdict::Rejected;
        }
        for &r in removals {
            if r < self.cap() {
                self.leaves.remove(&r);
                self.written.remove(&r);
            }
        }
        for (k, v) in vs.iter().enumerate() {
            self.write(start + k, *v);
        }
        Verdict::Applied
    }
    pub fn reset(&mut self) {
        self.leaves.clear();
        self.written.clear();
        self.mark = 0;
    }
}
