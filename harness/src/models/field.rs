//! Fr as BigUint mod p, with p written out as a decimal literal (no arkworks arithmetic here).
//! Conversions Fr <-> BigUint go through canonical little-endian bytes.

use ark_bn254::Fr;
use ark_ff::{BigInteger, PrimeField};
use num_bigint::BigUint;
use num_traits::{One, Zero};
use serde::{Deserialize, Deserializer, Serialize, Serializer};
use std::sync::OnceLock;

pub const P_DEC: &str =
    "21888242871839275222246405745257275088548364400416034343698204186575808495617";

pub fn p() -> &'static BigUint {
    static P: OnceLock<BigUint> = OnceLock::new();
    P.get_or_init(|| P_DEC.parse().unwrap())
}

pub fn half_p() -> &'static BigUint {
    static H: OnceLock<BigUint> = OnceLock::new();
    H.get_or_init(|| (p() - BigUint::one()) >> 1)
}

pub fn big_to_fr(b: &BigUint) -> Fr {
    // the value must already be canonical; from_le_bytes_mod_order would hide a bug in the model
    assert!(b < p(), "model produced non-canonical value");
    let mut bytes = b.to_bytes_le();
    bytes.resize(32, 0);
    Fr::from_le_bytes_mod_order(&bytes)
}

pub fn fr_to_big(f: &Fr) -> BigUint {
    BigUint::from_bytes_le(&f.into_bigint().to_bytes_le())
}

pub fn big_to_le32(b: &BigUint) -> [u8; 32] {
    let mut out = [0u8; 32];
    let bytes = b.to_bytes_le();
    assert!(bytes.len() <= 32);
    out[..bytes.len()].copy_from_slice(&bytes);
    out
}

pub fn fr_to_le32(f: &Fr) -> [u8; 32] {
    big_to_le32(&fr_to_big(f))
}

pub fn addm(a: &BigUint, b: &BigUint) -> BigUint {
    (a + b) % p()
}
pub fn subm(a: &BigUint, b: &BigUint) -> BigUint {
    ((a + p()) - (b % p())) % p()
}
pub fn mulm(a: &BigUint, b: &BigUint) -> BigUint {
    (a * b) % p()
}
pub fn powm(a: &BigUint, e: &BigUint) -> BigUint {
    a.modpow(e, p())
}
pub fn invm(a: &BigUint) -> Option<BigUint> {
    if (a % p()).is_zero() {
        None
    } else {
        Some(a.modpow(&(p() - BigUint::from(2u32)), p()))
    }
}

/// Serializable wrapper for a field element (decimal string).
#[derive(Clone, Copy, PartialEq, Eq, Hash)]
pub struct Fx(pub Fr);

impl std::fmt::Debug for Fx {
    fn fmt(&self, f: &mut std::fmt::Formatter<'_>) -> std::fmt::Result {
        write!(f, "{}", fr_to_big(&self.0))
    }
}
impl Serialize for Fx {
    fn serialize<S: Serializer>(&self, s: S) -> Result<S::Ok, S::Error> {
        s.serialize_str(&fr_to_big(&self.0).to_string())
    }
}
impl<'de> Deserialize<'de> for Fx {
    fn deserialize<D: Deserializer<'de>>(d: D) -> Result<Self, D::Error> {
        let s = String::deserialize(d)?;
        let b: BigUint = s.parse().map_err(serde::de::Error::custom)?;
        if &b >= p() {
            return Err(serde::de::Error::custom("not canonical"));
        }
        Ok(Fx(big_to_fr(&b)))
    }
}
impl Fx {
    pub fn big(&self) -> BigUint {
        fr_to_big(&self.0)
    }
    pub fn from_big(b: &BigUint) -> Fx {
        Fx(big_to_fr(&(b % p())))
    }
    pub fn from_u64(v: u64) -> Fx {
        Fx(Fr::from(v))
    }
}

/// Boundary values of the field used by generators (as BigUint, all < p).
pub fn boundary_values() -> &'static Vec<BigUint> {
    static B: OnceLock<Vec<BigUint>> = OnceLock::new();
    B.get_or_init(|| {
        let one = BigUint::one();
        let mut v: Vec<BigUint> = vec![
            BigUint::zero(),
            one.clone(),
            BigUint::from(2u32),
            p() - &one,
            p() - BigUint::from(2u32),
            half_p().clone(),
            half_p() + &one,
            half_p() - &one,
        ];
        for k in [8usize, 15, 16, 17, 31, 32, 33, 63, 64, 65, 127, 128, 129, 191, 192, 193, 252, 253] {
            let t = &one << k;
            v.push(&t - &one);
            v.push(t.clone());
            v.push(&t + &one);
        }
        v.retain(|x| x < p());
        v.sort();
        v.dedup();
        v
    })
}

/// The full boundary grid named by C19: {0,1,2,2^k-1,2^k,2^k+1 (k=8..254),(p-1)/2,(p+1)/2,p-2,p-1} ∩ [0,p)
pub fn c19_grid(ks: &[usize]) -> Vec<BigUint> {
    let one = BigUint::one();
    let mut v: Vec<BigUint> = vec![
        BigUint::zero(),
        one.clone(),
        BigUint::from(2u32),
        half_p().clone(),
        half_p() + &one,
        p() - BigUint::from(2u32),
        p() - &one,
    ];
    for &k in ks {
        let t = &one << k;
        v.push(&t - &one);
        v.push(t.clone());
        v.push(&t + &one);
    }
    v.retain(|x| x < p());
    v.sort();
    v.dedup();
    v
}
