//! Textbook Poseidon over BN254's scalar field on BigUint:
//! state = [0, in...]; for each round: add round constants, S-box x^5 (all lanes in the RF/2 first
//! and RF/2 last rounds, lane 0 otherwise), dense MDS multiplication; output lane 0.
//! (t, RF, RP) = circomlib's table, written out literally; constants come from the frozen file
//! data/poseidon_constants.json (circomlib / poseidon-rs published C and M).

use super::field::{addm, mulm, p};
use num_bigint::BigUint;
use num_traits::Zero;
use std::sync::OnceLock;

pub const PARAMS: [(usize, usize, usize); 8] = [
    (2, 8, 56),
    (3, 8, 57),
    (4, 8, 56),
    (5, 8, 60),
    (6, 8, 60),
    (7, 8, 63),
    (8, 8, 64),
    (9, 8, 63),
];

pub struct Consts {
    pub c: Vec<Vec<BigUint>>,
    pub m: Vec<Vec<Vec<BigUint>>>,
}

static JSON: &str = include_str!("../../data/poseidon_constants.json");

pub fn consts() -> &'static Consts {
    static C: OnceLock<Consts> = OnceLock::new();
    C.get_or_init(|| {
        let v: serde_json::Value = serde_json::from_str(JSON).expect("constants json");
        let parse = |s: &serde_json::Value| -> BigUint { s.as_str().unwrap().parse().unwrap() };
        let c = v["c"]
            .as_array()
            .unwrap()
            .iter()
            .map(|a| a.as_array().unwrap().iter().map(parse).collect())
            .collect();
        let m = v["m"]
            .as_array()
            .unwrap()
            .iter()
            .map(|mm| {
                mm.as_array()
                    .unwrap()
                    .iter()
                    .map(|r| r.as_array().unwrap().iter().map(parse).collect())
                    .collect()
            })
            .collect();
        Consts { c, m }
    })
}

fn pow5(x: &BigUint) -> BigUint {
    let x2 = mulm(x, x);
    let x4 = mulm(&x2, &x2);
    mulm(&x4, x)
}

/// Poseidon hash of 1..=8 canonical field elements.
pub fn poseidon(inputs: &[BigUint]) -> BigUint {
    let n = inputs.len();
    assert!((1..=8).contains(&n));
    let (t, rf, rp) = PARAMS[n - 1];
    assert_eq!(t, n + 1);
    let k = consts();
    let c = &k.c[n - 1];
    let m = &k.m[n - 1];
    let mut state: Vec<BigUint> = Vec::with_capacity(t);
    state.push(BigUint::zero());
    for i in inputs {
        assert!(i < p());
        state.push(i.clone());
    }
    for r in 0..(rf + rp) {
        for i in 0..t {
            state[i] = addm(&state[i], &c[r * t + i]);
        }
        if r < rf / 2 || r >= rf / 2 + rp {
            for s in state.iter_mut() {
                *s = pow5(s);
            }
        } else {
            state[0] = pow5(&state[0]);
        }
        let mut next = vec![BigUint::zero(); t];
        for i in 0..t {
            let mut acc = BigUint::zero();
            for j in 0..t {
                acc += &m[i][j] * &state[j];
            }
            next[i] = acc % p();
        }
        state = next;
    }
    state.swap_remove(0)
}

/// Known answers: circomlibjs' published test vectors (test/poseidon.js) recalled independently.
pub fn selftest() -> Result<(), String> {
    let b = |s: &str| -> BigUint { s.parse().unwrap() };
    let u = |v: u32| BigUint::from(v);
    let kats: Vec<(Vec<BigUint>, BigUint)> = vec![
        // poseidon([1, 2])
        (
            vec![u(1), u(2)],
            b("7853200120776062878684798364095072458815029376092732009249414926327459813530"),
        ),
        // poseidon([1, 2, 3, 4])
        (
            vec![u(1), u(2), u(3), u(4)],
            b("18821383157269793795438455681495246036402687001665670618754263018637548127333"),
        ),
        // poseidon([1])
        (
            vec![u(1)],
            b("18586133768512220936620570745912940619677854269274689475585506675881198879027"),
        ),
    ];
    for (i, o) in kats {
        let got = poseidon(&i);
        if got != o {
            return Err(format!("poseidon_ref KAT failed for {i:?}: got {got}"));
        }
    }
    Ok(())
}
