//! Own Keccak-256 sponge (rate 136, multi-rate padding 0x01 .. 0x80) over RustCrypto's
//! keccak::f1600 permutation. Independent of tiny-keccak which zerokit uses.

pub fn keccak256(data: &[u8]) -> [u8; 32] {
    const RATE: usize = 136;
    let mut state = [0u64; 25];
    let absorb = |state: &mut [u64; 25], block: &[u8]| {
        debug_assert_eq!(block.len(), RATE);
        for i in 0..RATE / 8 {
            let mut w = [0u8; 8];
            w.copy_from_slice(&block[i * 8..i * 8 + 8]);
            state[i] ^= u64::from_le_bytes(w);
        }
        keccak::f1600(state);
    };
    let mut chunks = data.chunks_exact(RATE);
    for c in &mut chunks {
        absorb(&mut state, c);
    }
    let rem = chunks.remainder();
    let mut last = [0u8; RATE];
    last[..rem.len()].copy_from_slice(rem);
    last[rem.len()] ^= 0x01;
    last[RATE - 1] ^= 0x80;
    absorb(&mut state, &last);
    let mut out = [0u8; 32];
    for i in 0..4 {
        out[i * 8..i * 8 + 8].copy_from_slice(&state[i].to_le_bytes());
    }
    out
}

fn hex(b: &[u8]) -> String {
    b.iter().map(|x| format!("{x:02x}")).collect()
}

/// Known-answer self test (vectors recalled from the Keccak team's / Ethereum's published values).
pub fn selftest() -> Result<(), String> {
    let kats: [(&[u8], &str); 3] = [
        (b"", "c5d2460186f7233c927e7db2dcc703c0e500b653ca82273b7bfad8045d85a470"),
        (b"abc", "4e03657aea45a94fc7d47ba826c8d667c0d1e6e33a64a036ec44f58fa12d6c45"),
        (
            b"The quick brown fox jumps over the lazy dog",
            "4d741b6f1eb29cb2a9b9911c82f56fa8d73b04959d3d9d222895df6c0b28aa15",
        ),
    ];
    for (m, h) in kats {
        let got = hex(&keccak256(m));
        if got != h {
            return Err(format!("keccak_ref KAT failed for {:?}: {got}", m));
        }
    }
    Ok(())
}
