//! Independent encoder/decoder for the documented byte layouts (written from the doc comments in
//! rln/src/public.rs and rln/src/protocol.rs). Shares no code with rln::utils.
//! Field elements are BigUint (canonical), integers are u64 little endian.

use num_bigint::BigUint;

pub fn enc_fr(v: &BigUint) -> Vec<u8> {
    let mut b = v.to_bytes_le();
    assert!(b.len() <= 32);
    b.resize(32, 0);
    b
}
pub fn enc_u64(v: u64) -> Vec<u8> {
    v.to_le_bytes().to_vec()
}
pub fn enc_vec_fr(v: &[BigUint]) -> Vec<u8> {
    let mut out = enc_u64(v.len() as u64);
    for e in v {
        out.extend(enc_fr(e));
    }
    out
}
pub fn enc_vec_u8(v: &[u8]) -> Vec<u8> {
    let mut out = enc_u64(v.len() as u64);
    out.extend_from_slice(v);
    out
}
pub fn enc_vec_usize(v: &[u64]) -> Vec<u8> {
    let mut out = enc_u64(v.len() as u64);
    for e in v {
        out.extend(enc_u64(*e));
    }
    out
}

#[derive(Clone, Debug, PartialEq, Eq)]
pub struct WitnessRef {
    pub s: BigUint,
    pub limit: BigUint,
    pub mid: BigUint,
    pub path: Vec<BigUint>,
    pub bits: Vec<u8>,
    pub x: BigUint,
    pub e: BigUint,
}

/// [ identity_secret<32> | user_message_limit<32> | message_id<32> | path_elements[<32>] | identity_path_index<8> | x<32> | external_nullifier<32> ]
pub fn enc_witness(w: &WitnessRef) -> Vec<u8> {
    let mut out = vec![];
    out.extend(enc_fr(&w.s));
    out.extend(enc_fr(&w.limit));
    out.extend(enc_fr(&w.mid));
    out.extend(enc_vec_fr(&w.path));
    out.extend(enc_vec_u8(&w.bits));
    out.extend(enc_fr(&w.x));
    out.extend(enc_fr(&w.e));
    out
}

#[derive(Clone, Debug, PartialEq, Eq)]
pub struct ValuesRef {
    pub root: BigUint,
    pub e: BigUint,
    pub x: BigUint,
    pub y: BigUint,
    pub nullifier: BigUint,
}

/// [ root<32> | external_nullifier<32> | x<32> | y<32> | nullifier<32> ]
pub fn enc_values(v: &ValuesRef) -> Vec<u8> {
    let mut out = vec![];
    for f in [&v.root, &v.e, &v.x, &v.y, &v.nullifier] {
        out.extend(enc_fr(f));
    }
    out
}

/// [ identity_secret<32> | id_index<8> | user_message_limit<32> | message_id<32> | external_nullifier<32> | signal_len<8> | signal<var> ]
pub fn enc_prove_input(
    s: &BigUint,
    index: u64,
    limit: &BigUint,
    mid: &BigUint,
    e: &BigUint,
    signal: &[u8],
) -> Vec<u8> {
    let mut out = vec![];
    out.extend(enc_fr(s));
    out.extend(enc_u64(index));
    out.extend(enc_fr(limit));
    out.extend(enc_fr(mid));
    out.extend(enc_fr(e));
    out.extend(enc_u64(signal.len() as u64));
    out.extend_from_slice(signal);
    out
}

/// [ proof<128> | values<160> | signal_len<8> | signal<var> ]
pub fn enc_verify_input(proof_and_values: &[u8], signal: &[u8]) -> Vec<u8> {
    let mut out = proof_and_values.to_vec();
    out.extend(enc_u64(signal.len() as u64));
    out.extend_from_slice(signal);
    out
}

// ---- decoders (strict: every error is reported, nothing is reduced silently) ----

pub struct Rd<'a> {
    pub b: &'a [u8],
    pub pos: usize,
}
impl<'a> Rd<'a> {
    pub fn new(b: &'a [u8]) -> Self {
        Rd { b, pos: 0 }
    }
    pub fn take(&mut self, n: usize) -> Result<&'a [u8], String> {
        if self.b.len() - self.pos < n {
            return Err(format!("short read at {} need {}", self.pos, n));
        }
        let s = &self.b[self.pos..self.pos + n];
        self.pos += n;
        Ok(s)
    }
    pub fn fr_raw(&mut self) -> Result<BigUint, String> {
        Ok(BigUint::from_bytes_le(self.take(32)?))
    }
    pub fn u64(&mut self) -> Result<u64, String> {
        let mut w = [0u8; 8];
        w.copy_from_slice(self.take(8)?);
        Ok(u64::from_le_bytes(w))
    }
    pub fn vec_fr(&mut self) -> Result<Vec<BigUint>, String> {
        let n = self.u64()? as usize;
        if n > (self.b.len() - self.pos) / 32 {
            return Err("vector length exceeds buffer".into());
        }
        (0..n).map(|_| self.fr_raw()).collect()
    }
    pub fn vec_u8(&mut self) -> Result<Vec<u8>, String> {
        let n = self.u64()? as usize;
        Ok(self.take(n)?.to_vec())
    }
    pub fn done(&self) -> bool {
        self.pos == self.b.len()
    }
}

pub fn dec_witness(b: &[u8]) -> Result<WitnessRef, String> {
    let mut r = Rd::new(b);
    let w = WitnessRef {
        s: r.fr_raw()?,
        limit: r.fr_raw()?,
        mid: r.fr_raw()?,
        path: r.vec_fr()?,
        bits: r.vec_u8()?,
        x: r.fr_raw()?,
        e: r.fr_raw()?,
    };
    if !r.done() {
        return Err("trailing bytes".into());
    }
    Ok(w)
}

pub fn dec_values(b: &[u8]) -> Result<ValuesRef, String> {
    let mut r = Rd::new(b);
    Ok(ValuesRef {
        root: r.fr_raw()?,
        e: r.fr_raw()?,
        x: r.fr_raw()?,
        y: r.fr_raw()?,
        nullifier: r.fr_raw()?,
    })
}

pub fn dec_vec_usize(b: &[u8]) -> Result<Vec<u64>, String> {
    let mut r = Rd::new(b);
    let n = r.u64()? as usize;
    let v: Result<Vec<u64>, String> = (0..n).map(|_| r.u64()).collect();
    let v = v?;
    if !r.done() {
        return Err("trailing bytes".into());
    }
    Ok(v)
}

/// get_proof output: vec_fr(path) | vec_u8(bits)
pub fn dec_merkle_proof(b: &[u8]) -> Result<(Vec<BigUint>, Vec<u8>), String> {
    let mut r = Rd::new(b);
    let p = r.vec_fr()?;
    let i = r.vec_u8()?;
    if !r.done() {
        return Err("trailing bytes".into());
    }
    Ok((p, i))
}
