//! The RLN formulas on top of the reference Poseidon/Keccak (BigUint arithmetic only).

use super::field::{addm, mulm, p};
use super::keccak_ref::keccak256;
use super::poseidon_ref::poseidon;
use num_bigint::BigUint;

pub fn hash_to_field_ref(signal: &[u8]) -> BigUint {
    BigUint::from_bytes_le(&keccak256(signal)) % p()
}

pub struct RefValues {
    pub y: BigUint,
    pub root: BigUint,
    pub nullifier: BigUint,
    pub a1: BigUint,
}

pub fn rate_commitment(s: &BigUint, limit: &BigUint) -> BigUint {
    poseidon(&[poseidon(&[s.clone()]), limit.clone()])
}

pub fn fold_root(leaf: &BigUint, path: &[BigUint], bits: &[u8]) -> BigUint {
    let mut node = leaf.clone();
    for (sib, b) in path.iter().zip(bits.iter()) {
        node = if *b == 0 {
            poseidon(&[node, sib.clone()])
        } else {
            poseidon(&[sib.clone(), node])
        };
    }
    node
}

pub fn ref_values(
    s: &BigUint,
    limit: &BigUint,
    mid: &BigUint,
    path: &[BigUint],
    bits: &[u8],
    x: &BigUint,
    e: &BigUint,
) -> RefValues {
    let a1 = poseidon(&[s.clone(), e.clone(), mid.clone()]);
    let y = addm(s, &mulm(x, &a1));
    let nullifier = poseidon(&[a1.clone()]);
    let root = fold_root(&rate_commitment(s, limit), path, bits);
    RefValues { y, root, nullifier, a1 }
}
