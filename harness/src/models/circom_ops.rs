//! circom 2 operator semantics on canonical representatives in [0,p), from the language
//! reference (DESIGN Appendix A). BigUint only.

use super::field::{addm, half_p, invm, mulm, p, powm, subm};
use num_bigint::BigUint;
use num_traits::{One, ToPrimitive, Zero};

#[derive(Clone, Copy, Debug, PartialEq, Eq, Hash, serde::Serialize, serde::Deserialize)]
pub enum Op {
    Mul,
    Div,
    Add,
    Sub,
    Pow,
    Idiv,
    Mod,
    Eq,
    Neq,
    Lt,
    Gt,
    Leq,
    Geq,
    Land,
    Lor,
    Shl,
    Shr,
    Bor,
    Band,
    Bxor,
}

pub const ALL_OPS: [Op; 20] = [
    Op::Mul,
    Op::Div,
    Op::Add,
    Op::Sub,
    Op::Pow,
    Op::Idiv,
    Op::Mod,
    Op::Eq,
    Op::Neq,
    Op::Lt,
    Op::Gt,
    Op::Leq,
    Op::Geq,
    Op::Land,
    Op::Lor,
    Op::Shl,
    Op::Shr,
    Op::Bor,
    Op::Band,
    Op::Bxor,
];

const B: u64 = 254;

fn mask() -> BigUint {
    (BigUint::one() << 254usize) - BigUint::one()
}

fn b2u(b: bool) -> BigUint {
    if b {
        BigUint::one()
    } else {
        BigUint::zero()
    }
}

/// signed comparison: val(z) = z - p if z > (p-1)/2 else z
fn cmp_signed(a: &BigUint, b: &BigUint) -> std::cmp::Ordering {
    let an = a > half_p();
    let bn = b > half_p();
    match (an, bn) {
        (false, false) | (true, true) => a.cmp(b),
        (true, false) => std::cmp::Ordering::Less,
        (false, true) => std::cmp::Ordering::Greater,
    }
}

fn reduce_masked(r: BigUint) -> BigUint {
    let r = r & mask();
    if &r >= p() {
        r - p()
    } else {
        r
    }
}

fn shl_small(a: &BigUint, k: u64) -> BigUint {
    reduce_masked(a << (k as usize))
}
fn shr_small(a: &BigUint, k: u64) -> BigUint {
    a >> (k as usize)
}

pub fn eval(op: Op, a: &BigUint, b: &BigUint) -> BigUint {
    debug_assert!(a < p() && b < p());
    match op {
        Op::Mul => mulm(a, b),
        Op::Add => addm(a, b),
        Op::Sub => subm(a, b),
        Op::Div => match invm(b) {
            None => BigUint::zero(),
            Some(i) => mulm(a, &i),
        },
        Op::Pow => powm(a, b),
        Op::Idiv => {
            if b.is_zero() {
                BigUint::zero()
            } else {
                a / b
            }
        }
        Op::Mod => {
            if b.is_zero() {
                BigUint::zero()
            } else {
                a % b
            }
        }
        Op::Eq => b2u(a == b),
        Op::Neq => b2u(a != b),
        Op::Lt => b2u(cmp_signed(a, b).is_lt()),
        Op::Gt => b2u(cmp_signed(a, b).is_gt()),
        Op::Leq => b2u(cmp_signed(a, b).is_le()),
        Op::Geq => b2u(cmp_signed(a, b).is_ge()),
        Op::Land => b2u(!a.is_zero() && !b.is_zero()),
        Op::Lor => b2u(!a.is_zero() || !b.is_zero()),
        Op::Shl => {
            if b < &BigUint::from(B) {
                shl_small(a, b.to_u64().unwrap())
            } else {
                let nb = p() - b;
                if nb < BigUint::from(B) {
                    shr_small(a, nb.to_u64().unwrap())
                } else {
                    BigUint::zero()
                }
            }
        }
        Op::Shr => {
            if b < &BigUint::from(B) {
                shr_small(a, b.to_u64().unwrap())
            } else {
                let nb = p() - b;
                if nb < BigUint::from(B) {
                    shl_small(a, nb.to_u64().unwrap())
                } else {
                    BigUint::zero()
                }
            }
        }
        Op::Bor => reduce_masked(a | b),
        Op::Band => reduce_masked(a & b),
        Op::Bxor => reduce_masked(a ^ b),
    }
}

pub fn neg(a: &BigUint) -> BigUint {
    if a.is_zero() {
        BigUint::zero()
    } else {
        p() - a
    }
}

pub fn terncond(a: &BigUint, b: &BigUint, c: &BigUint) -> BigUint {
    if a.is_zero() {
        c.clone()
    } else {
        b.clone()
    }
}
