pub mod circom_ops;
pub mod codec_ref;
pub mod field;
pub mod formulas;
pub mod keccak_ref;
pub mod poseidon_ref;
pub mod tree_model;
