//! Pool of node workers running the reference witness generator (refwit/refwit.js).

use crate::rlnh::Wit;
use num_bigint::BigUint;
use serde_json::{json, Value};
use sha2::{Digest, Sha256};
use std::io::{BufRead, BufReader, Write};
use std::process::{Child, ChildStdin, ChildStdout, Command, Stdio};
use std::sync::Mutex;

pub struct Worker {
    child: Child,
    stdin: ChildStdin,
    stdout: BufReader<ChildStdout>,
    next_id: u64,
}

pub struct RefWit {
    workers: Vec<Mutex<Worker>>,
    pub prime: String,
    pub n: usize,
}

#[derive(Debug, Clone)]
pub enum RefOut {
    /// (number of signals, sha256 of the comma-joined decimal strings, first signals)
    Hash(usize, String, Vec<BigUint>),
    Full(Vec<BigUint>),
    Reject(String),
}

fn spawn() -> Result<(Worker, String, usize), String> {
    let mut child = Command::new("node")
        .arg("/verif/refwit/refwit.js")
        .stdin(Stdio::piped())
        .stdout(Stdio::piped())
        .stderr(Stdio::null())
        .spawn()
        .map_err(|e| format!("cannot start node: {e}"))?;
    let stdin = child.stdin.take().unwrap();
    let mut stdout = BufReader::new(child.stdout.take().unwrap());
    let mut line = String::new();
    stdout.read_line(&mut line).map_err(|e| e.to_string())?;
    let v: Value = serde_json::from_str(&line).map_err(|e| format!("refwit handshake: {e}: {line}"))?;
    if v["ready"] != true {
        return Err(format!("refwit not ready: {line}"));
    }
    let prime = v["prime"].as_str().unwrap_or("").to_string();
    let n = v["n"].as_u64().unwrap_or(0) as usize;
    Ok((Worker { child, stdin, stdout, next_id: 1 }, prime, n))
}

pub fn inputs_json(w: &Wit) -> Value {
    json!({
        "identitySecret": w.s.big().to_string(),
        "userMessageLimit": w.limit.big().to_string(),
        "messageId": w.mid.big().to_string(),
        "pathElements": w.path.iter().map(|f| f.big().to_string()).collect::<Vec<_>>(),
        "identityPathIndex": w.bits.iter().map(|b| b.to_string()).collect::<Vec<_>>(),
        "x": w.x.big().to_string(),
        "externalNullifier": w.e.big().to_string(),
    })
}

pub fn witness_sha256(w: &[BigUint]) -> String {
    let mut h = Sha256::new();
    for (i, x) in w.iter().enumerate() {
        if i > 0 {
            h.update(b",");
        }
        h.update(x.to_string().as_bytes());
    }
    h.finalize().iter().map(|b| format!("{b:02x}")).collect()
}

impl RefWit {
    pub fn new(n_workers: usize) -> Result<RefWit, String> {
        let mut workers = vec![];
        let mut prime = String::new();
        let mut n = 0;
        for _ in 0..n_workers {
            let (w, p, nn) = spawn()?;
            prime = p;
            n = nn;
            workers.push(Mutex::new(w));
        }
        if prime != crate::models::field::P_DEC {
            return Err(format!("reference generator works over a different prime: {prime}"));
        }
        Ok(RefWit { workers, prime, n })
    }

    /// mode "hash" (default for bulk) or "full"
    pub fn eval(&self, slot: usize, w: &Wit, full: bool) -> Result<RefOut, String> {
        let mut wk = self.workers[slot % self.workers.len()].lock().unwrap();
        let id = wk.next_id;
        wk.next_id += 1;
        let req = json!({"id": id, "mode": if full { "full" } else { "hash" }, "inputs": inputs_json(w)});
        let line = serde_json::to_string(&req).unwrap();
        wk.stdin.write_all(line.as_bytes()).map_err(|e| e.to_string())?;
        wk.stdin.write_all(b"\n").map_err(|e| e.to_string())?;
        wk.stdin.flush().map_err(|e| e.to_string())?;
        let mut resp = String::new();
        wk.stdout.read_line(&mut resp).map_err(|e| e.to_string())?;
        if resp.is_empty() {
            return Err("reference generator closed its output".into());
        }
        let v: Value = serde_json::from_str(&resp).map_err(|e| format!("refwit response: {e}"))?;
        if v["id"].as_u64() != Some(id) {
            return Err(format!("refwit response id mismatch: {}", crate::engine::truncate(&resp, 200)));
        }
        if let Some(r) = v["reject"].as_str() {
            return Ok(RefOut::Reject(r.to_string()));
        }
        let sigs: Vec<BigUint> = v["witness"].as_array().ok_or("no witness")?.iter().map(|s| s.as_str().unwrap_or("0").parse().unwrap()).collect();
        if full {
            Ok(RefOut::Full(sigs))
        } else {
            Ok(RefOut::Hash(v["n"].as_u64().unwrap_or(0) as usize, v["sha256"].as_str().unwrap_or("").to_string(), sigs))
        }
    }
}

impl Drop for RefWit {
    fn drop(&mut self) {
        for w in &self.workers {
            if let Ok(mut w) = w.lock() {
                let _ = w.child.kill();
                let _ = w.child.wait();
            }
        }
    }
}

pub fn global(n: usize) -> Result<&'static RefWit, String> {
    static R: std::sync::OnceLock<Result<RefWit, String>> = std::sync::OnceLock::new();
    R.get_or_init(|| RefWit::new(n)).as_ref().map_err(|e| e.clone())
}
