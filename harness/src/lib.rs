#![allow(dead_code)]
//! vharness: engine, reference models and one module per property; used by the `vcheck` binary and
//! by the cargo-fuzz targets in /verif/fuzz.
#[macro_use]
pub mod engine;
pub mod exp;
pub mod gens;
pub mod models;
pub mod pipeline;
pub mod props;
pub mod refwit;
pub mod rlnh;
pub mod fuzzing;
