#![allow(dead_code)]
use vharness::engine::*;
use vharness::{exp, props};

use std::path::PathBuf;

fn usage() -> ! {
    eprintln!("usage: vcheck run <ID> <quick|thorough> | vcheck replay <ID> <file> [--strict]");
    std::process::exit(2)
}

fn make_ctx(id: &str, tier: Tier, strict: bool) -> Ctx {
    let seed = std::env::var("VERIF_SEED")
        .ok()
        .and_then(|s| s.parse::<u64>().ok())
        .unwrap_or(0);
    let tmpdir = PathBuf::from(format!("/tmp/vcheck-{}-{}", id, std::process::id()));
    let _ = std::fs::create_dir_all(&tmpdir);
    std::env::set_var("TMPDIR", &tmpdir);
    Ctx {
        id: id.to_string(),
        tier,
        seed,
        known: KnownFindings::load(),
        strict,
        tmpdir,
    }
}

macro_rules! dispatch {
    ($id:expr, $f:ident, $($arg:expr),*) => {
        match $id {
            "C09" => $f(&props::c09::C09, $($arg),*),
            "C14" => $f(&props::c14::C14, $($arg),*),
            "C06" => $f(&props::c06::C06, $($arg),*),
            "C15" => $f(&props::c15::C15, $($arg),*),
            "C08" => $f(&props::c08::C08, $($arg),*),
            "C07" => $f(&props::c07::C07, $($arg),*),
            "C19" => $f(&props::c19::C19, $($arg),*),
            "C20" => $f(&props::c20::C20, $($arg),*),
            "C04" => $f(&props::c04::C04, $($arg),*),
            "C10" => $f(&props::c10::C10, $($arg),*),
            "C03" => $f(&props::c03::C03, $($arg),*),
            "C13" => $f(&props::c13::C13, $($arg),*),
            "C05" => $f(&props::c05::C05, $($arg),*),
            "C01" => $f(&props::c01::C01, $($arg),*),
            "C12" => $f(&props::c12::C12, $($arg),*),
            "C02" => $f(&props::c02::C02, $($arg),*),
            "C16" => $f(&props::c16::C16, $($arg),*),
            "C11" => $f(&props::c11::C11, $($arg),*),
            "C18" => $f(&props::c18::C18, $($arg),*),
            "C17" => $f(&props::c17::C17, $($arg),*),
            _ => {
                eprintln!("unknown property {}", $id);
                2
            }
        }
    };
}

fn fuzz_decode<P: Property>(p: &P, ctx: &Ctx, data: &[u8]) -> i32 {
    vharness::fuzzing::decode_and_check(p, ctx, data)
}

fn main() {
    let args: Vec<String> = std::env::args().collect();
    if args.len() < 2 {
        usage();
    }
    install_quiet_panic_hook();
    match args[1].as_str() {
        "run" => {
            if args.len() < 4 {
                usage();
            }
            let id = args[2].as_str();
            let tier = match args[3].as_str() {
                "quick" => Tier::Quick,
                "thorough" => Tier::Thorough,
                _ => usage(),
            };
            let ctx = make_ctx(id, tier, false);
            let code = dispatch!(id, run_property, &ctx);
            cleanup_tmp(&ctx);
            std::process::exit(code);
        }
        "replay" => {
            if args.len() < 4 {
                usage();
            }
            let id = args[2].as_str();
            let strict = args.iter().any(|a| a == "--strict");
            let ctx = make_ctx(id, Tier::Quick, strict);
            let path = PathBuf::from(&args[3]);
            let code = dispatch!(id, replay_property, &ctx, &path);
            cleanup_tmp(&ctx);
            std::process::exit(code);
        }
        "fuzz-decode" => {
            let id = args[2].as_str();
            let ctx = make_ctx(id, Tier::Quick, false);
            let data = std::fs::read(&args[3]).unwrap_or_default();
            let data = data.as_slice();
            let code = dispatch!(id, fuzz_decode, &ctx, data);
            cleanup_tmp(&ctx);
            std::process::exit(code);
        }
        "c16-child" => {
            // crash-point child of C16: aborts inside the armed storage operation
            let code = props::c16::child_main(&args[2], args[3].parse().unwrap_or(u64::MAX), &args[4]);
            std::process::exit(code);
        }
        "c18-pool-child" => std::process::exit(props::c18::pool_child(&args[2])),
        "c18-lazy-child" => std::process::exit(props::c18::lazy_child(&args[2])),
        "exp-timing" => {
            let _ctx = make_ctx("exp", Tier::Quick, false);
            exp::timing();
            cleanup_tmp(&_ctx);
        }
        "exp-reopen" => {
            let _ctx = make_ctx("exp", Tier::Quick, false);
            exp::reopen(args[2].parse().unwrap(), args[3].parse().unwrap());
            cleanup_tmp(&_ctx);
        }
        _ => usage(),
    }
}
