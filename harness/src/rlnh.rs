//! Helpers around the RLN object and the proof pipeline shared by C01-C05, C10-C13.

use crate::engine::*;
use crate::models::codec_ref::{self, ValuesRef, WitnessRef};
use crate::models::field::{big_to_fr, fr_to_big, p, Fx};
use ark_bn254::Fr;
use num_bigint::BigUint;
use proptest::prelude::*;
use rln::protocol::RLNWitnessInput;
use rln::public::RLN;
use serde::{Deserialize, Serialize};
use std::io::Cursor;

pub fn new_rln(depth: usize) -> RLN {
    RLN::new(depth, Cursor::new("{}".to_string())).expect("RLN::new")
}

pub fn graph_bytes() -> &'static [u8] {
    rln::circuit::graph_from_folder()
}

/// A witness in model form (BigUint) — the generator's unit for witness-level properties.
#[derive(Clone, Debug, Serialize, Deserialize)]
pub struct Wit {
    pub s: Fx,
    pub limit: Fx,
    pub mid: Fx,
    pub path: Vec<Fx>,
    pub bits: Vec<u8>,
    pub x: Fx,
    pub e: Fx,
}

impl Wit {
    pub fn to_ref(&self) -> WitnessRef {
        WitnessRef {
            s: self.s.big(),
            limit: self.limit.big(),
            mid: self.mid.big(),
            path: self.path.iter().map(|f| f.big()).collect(),
            bits: self.bits.clone(),
            x: self.x.big(),
            e: self.e.big(),
        }
    }
    pub fn encode(&self) -> Vec<u8> {
        codec_ref::enc_witness(&self.to_ref())
    }
    /// zerokit's witness object, obtained through its own decoder from the reference encoding
    pub fn to_impl(&self) -> Result<Result<RLNWitnessInput, String>, Panicked> {
        let enc = self.encode();
        guarded(|| rln::protocol::deserialize_witness(&enc).map(|(w, _)| w).map_err(|e| e.to_string()))
    }
}

/// (mid, limit) with 0 <= mid < limit <= 2^16, boundary weighted
pub fn mid_limit() -> BoxedStrategy<(Fx, Fx)> {
    let lim = prop_oneof![
        2 => Just(1u64),
        1 => Just(2u64),
        2 => Just(65535u64),
        3 => Just(65536u64),
        1 => Just(100u64),
        4 => 1u64..=65536,
    ];
    (lim, prop_oneof![3 => Just(0u8), 3 => Just(1u8), 4 => Just(2u8)], any::<u16>())
        .prop_map(|(limit, kind, raw)| {
            let mid = match kind {
                0 => 0,
                1 => limit - 1,
                _ => (raw as u64) % limit,
            };
            (Fx::from_u64(mid), Fx::from_u64(limit))
        })
        .boxed()
}

pub fn bits20() -> BoxedStrategy<Vec<u8>> {
    prop_oneof![
        1 => Just(vec![0u8; 20]),
        1 => Just(vec![1u8; 20]),
        1 => Just((0..20).map(|i| (i % 2) as u8).collect::<Vec<u8>>()),
        2 => (0usize..20).prop_map(|k| (0..20).map(|i| (i == k) as u8).collect::<Vec<u8>>()),
        2 => (0usize..20).prop_map(|k| (0..20).map(|i| (i != k) as u8).collect::<Vec<u8>>()),
        6 => proptest::collection::vec(0u8..2, 20),
    ]
    .boxed()
}

/// a witness the circuit accepts (depth 20, binary bits, mid < limit <= 2^16)
pub fn valid_wit() -> BoxedStrategy<Wit> {
    (
        crate::gens::fx(),
        mid_limit(),
        proptest::collection::vec(crate::gens::fx(), 20),
        bits20(),
        crate::gens::fx(),
        crate::gens::fx(),
    )
        .prop_map(|(s, (mid, limit), path, bits, x, e)| Wit { s, limit, mid, path, bits, x, e })
        .boxed()
}

pub fn named_inputs(w: &Wit) -> Vec<(String, Vec<Fr>)> {
    vec![
        ("identitySecret".into(), vec![w.s.0]),
        ("userMessageLimit".into(), vec![w.limit.0]),
        ("messageId".into(), vec![w.mid.0]),
        ("pathElements".into(), w.path.iter().map(|f| f.0).collect()),
        ("identityPathIndex".into(), w.bits.iter().map(|b| Fr::from(*b as u64)).collect()),
        ("x".into(), vec![w.x.0]),
        ("externalNullifier".into(), vec![w.e.0]),
    ]
}

pub fn values_from_bytes(b: &[u8]) -> Result<ValuesRef, String> {
    let v = codec_ref::dec_values(b)?;
    for (n, f) in [("root", &v.root), ("external_nullifier", &v.e), ("x", &v.x), ("y", &v.y), ("nullifier", &v.nullifier)] {
        if f >= p() {
            return Err(format!("{n} is not canonically encoded"));
        }
    }
    Ok(v)
}

pub fn fxb(b: &BigUint) -> Fx {
    Fx(big_to_fr(b))
}

pub fn frs(v: &[Fx]) -> Vec<BigUint> {
    v.iter().map(|f| f.big()).collect()
}

#[allow(dead_code)]
pub fn show(f: &Fr) -> String {
    fr_to_big(f).to_string()
}

/// graph files a caller may be left with after an interrupted download or a version mismatch
pub fn damaged_graph(kind: u8) -> Vec<u8> {
    let g = graph_bytes();
    match kind % 4 {
        0 => {
            // header, "one node follows", an empty node record
            let mut v = b"wtns.graph.001".to_vec();
            v.extend_from_slice(&1u64.to_le_bytes());
            v.extend_from_slice(&[0u8; 16]);
            v
        }
        1 => g[..g.len() / 2].to_vec(),
        2 => g[..g.len() - 3].to_vec(),
        _ => g[..40].to_vec(),
    }
}


// ---------------------------------------------------------------------------------------------
// other key files
// ---------------------------------------------------------------------------------------------

fn zkey_section(zkey: &[u8], id: u32) -> Option<(usize, usize)> {
    let n = u32::from_le_bytes(zkey[8..12].try_into().ok()?);
    let mut pos = 12usize;
    for _ in 0..n {
        let sid = u32::from_le_bytes(zkey[pos..pos + 4].try_into().ok()?);
        let len = u64::from_le_bytes(zkey[pos + 4..pos + 12].try_into().ok()?) as usize;
        pos += 12;
        if sid == id {
            return Some((pos, len));
        }
        pos += len;
    }
    None
}

/// A second *valid* key for the same circuit, as another phase-2 contribution would give: delta
/// halved, the L and H queries doubled (the snarkjs key file stores coordinates in Montgomery form,
/// little endian). Proofs made with it verify under its own verification key and not under the
/// shipped one, and the other way round.
pub fn rescaled_zkey() -> Result<&'static Vec<u8>, String> {
    use ark_bn254::{Fq, G1Affine, G2Affine};
    use ark_ec::{AffineRepr, CurveGroup};
    use ark_ff::{BigInteger, Field};
    static K: std::sync::OnceLock<Result<Vec<u8>, String>> = std::sync::OnceLock::new();
    K.get_or_init(|| {
        let fq = |v: &Fq| (v.0).to_bytes_le();
        let g1 = |p: &G1Affine| -> Vec<u8> {
            if p.is_zero() {
                return vec![0u8; 64];
            }
            let mut o = fq(&p.x);
            o.extend(fq(&p.y));
            o
        };
        let g2 = |p: &G2Affine| -> Vec<u8> {
            if p.is_zero() {
                return vec![0u8; 128];
            }
            let mut o = fq(&p.x.c0);
            o.extend(fq(&p.x.c1));
            o.extend(fq(&p.y.c0));
            o.extend(fq(&p.y.c1));
            o
        };
        let src = rln::circuit::ZKEY_BYTES;
        let (pk, _) = rln::circuit::zkey_from_raw(src).map_err(|e| e.to_string())?;
        let mut out = src.to_vec();
        let inv2 = Fr::from(2u64).inverse().unwrap();
        let d1: G1Affine = (pk.delta_g1 * inv2).into_affine();
        let d2: G2Affine = (pk.vk.delta_g2 * inv2).into_affine();
        let (h, hlen) = zkey_section(&out, 2).ok_or("no header section")?;
        if hlen != 84 + 64 + 64 + 128 + 128 + 64 + 128 {
            return Err(format!("unexpected header length {hlen}"));
        }
        let off = h + 84 + 64 + 64 + 128 + 128;
        if out[off..off + 64] != g1(&pk.delta_g1)[..] || out[off + 64..off + 192] != g2(&pk.vk.delta_g2)[..] {
            return Err("delta not found at the documented header offset".into());
        }
        out[off..off + 64].copy_from_slice(&g1(&d1));
        out[off + 64..off + 192].copy_from_slice(&g2(&d2));
        for (id, query) in [(8u32, &pk.l_query), (9u32, &pk.h_query)] {
            let (p, len) = zkey_section(&out, id).ok_or("no query section")?;
            if len != 64 * query.len() || out[p..p + 64] != g1(&query[0])[..] {
                return Err(format!("query section {id} does not match the parsed key"));
            }
            for (i, q) in query.iter().enumerate() {
                let doubled: G1Affine = (q.into_group() + q.into_group()).into_affine();
                out[p + 64 * i..p + 64 * (i + 1)].copy_from_slice(&g1(&doubled));
            }
        }
        Ok(out)
    })
    .as_ref()
    .map_err(|e| e.clone())
}
