//! Golden message pool and acceptance oracle shared by C01, C02, C12, C13.

use crate::engine::*;
use crate::gens::{self, Bytes};
use crate::models::codec_ref as cr;
use crate::models::field::{fr_to_big, p, Fx};
use crate::models::formulas;
use crate::models::tree_model::TreeModel;
use crate::rlnh::*;
use ark_bn254::Fr;
use num_bigint::BigUint;
use proptest::prelude::*;
use proptest::strategy::ValueTree;
use rln::public::RLN;
use serde::{Deserialize, Serialize};
use std::io::Cursor;

pub const DEPTH: usize = 20;
pub const CAP: usize = 1 << DEPTH;

/// a valid proving request in model form
#[derive(Clone, Debug, Serialize, Deserialize)]
pub struct Req {
    pub s: Fx,
    pub index: usize,
    pub limit: Fx,
    pub mid: Fx,
    pub e: Fx,
    pub signal: Bytes,
}

impl Req {
    pub fn encode(&self) -> Vec<u8> {
        cr::enc_prove_input(&self.s.big(), self.index as u64, &self.limit.big(), &self.mid.big(), &self.e.big(), &self.signal.expand())
    }
    pub fn rate_commitment(&self) -> BigUint {
        formulas::rate_commitment(&self.s.big(), &self.limit.big())
    }
}

pub fn index_strategy() -> BoxedStrategy<usize> {
    prop_oneof![
        1 => Just(0usize),
        1 => Just(1usize),
        1 => Just((1usize << 19) - 1),
        2 => Just(1usize << 19),
        1 => Just(CAP - 2),
        2 => Just(CAP - 1),
        2 => (1usize << 19)..CAP,
        3 => 0usize..CAP,
    ]
    .boxed()
}

pub fn req_strategy(max_signal: usize) -> BoxedStrategy<Req> {
    (gens::fx(), index_strategy(), mid_limit(), gens::fx(), gens::bytes(max_signal))
        .prop_map(|(s, index, (mid, limit), e, signal)| Req { s, index, limit, mid, e, signal })
        .boxed()
}

pub fn req_nontrivial(r: &Req, o: &mut Outcome) -> bool {
    let mut nt = false;
    if r.index >= 1 << 19 {
        o.label("index>=2^19");
        nt = true;
    }
    let (mid, limit) = (r.mid.big(), r.limit.big());
    if mid == BigUint::from(0u32) {
        o.label("mid=0");
        nt = true;
    }
    if &mid + 1u32 == limit {
        o.label("mid=limit-1");
        nt = true;
    }
    if limit == BigUint::from(1u32) {
        o.label("limit=1");
        nt = true;
    }
    if limit == BigUint::from(65536u32) {
        o.label("limit=2^16");
        nt = true;
    }
    if [r.s, r.e].iter().any(gens::is_boundary) {
        o.label("boundary-field-value");
        nt = true;
    }
    let l = r.signal.len();
    if l == 0 {
        o.label("signal/empty");
        nt = true;
    }
    if l >= 136 {
        o.label("signal/>=136");
        nt = true;
    }
    nt
}

/// deterministic draws from a strategy (used to build pools from VERIF_SEED)
pub fn draw<T: std::fmt::Debug>(s: &BoxedStrategy<T>, seed: u64, tag: &str, n: usize) -> Vec<T> {
    let mut runner = make_runner(seed, tag, 0, 1, 0);
    (0..n).map(|_| s.new_tree(&mut runner).expect("draw").current()).collect()
}

#[derive(Clone, Debug)]
pub struct Golden {
    pub req: Req,
    pub signal: Vec<u8>,
    /// [proof<128> | root | external_nullifier | x | y | nullifier]
    pub msg: Vec<u8>,
    pub values: cr::ValuesRef,
}

pub struct Pool {
    pub rln: RLN,
    pub model: TreeModel,
    pub root: BigUint,
    pub msgs: Vec<Golden>,
}

pub fn set_leaf_big(r: &mut RLN, index: usize, v: &BigUint) -> Result<(), String> {
    r.set_leaf(index, Cursor::new(cr::enc_fr(v))).map_err(|e| e.to_string())
}

pub fn get_root_big(r: &RLN) -> BigUint {
    let mut out = vec![];
    r.get_root(&mut out).expect("get_root");
    BigUint::from_bytes_le(&out)
}

/// expected public values of a request given the tree model
pub fn expected_values(req: &Req, model: &TreeModel) -> cr::ValuesRef {
    let (sibs, bits) = model.proof(req.index).expect("index in range");
    let path: Vec<BigUint> = sibs.iter().map(fr_to_big).collect();
    let x = formulas::hash_to_field_ref(&req.signal.expand());
    let v = formulas::ref_values(&req.s.big(), &req.limit.big(), &req.mid.big(), &path, &bits, &x, &req.e.big());
    cr::ValuesRef { root: v.root, e: req.e.big(), x, y: v.y, nullifier: v.nullifier }
}

pub fn build_pool(seed: u64, n: usize, tag: &str) -> Result<Pool, String> {
    let mut reqs = draw(&req_strategy(1200), seed, tag, n);
    // distinct positions
    let mut used = std::collections::BTreeSet::new();
    for r in reqs.iter_mut() {
        while !used.insert(r.index) {
            r.index = (r.index + 7919) % CAP;
        }
    }
    // the first pool message ends in zero bytes wherever an encoding can: its nullifier (the last of
    // the five public values) has a zero most significant byte — the external nullifier is advanced
    // until the reference formulas say so, about 48 steps — and its signal ends with three zero bytes.
    // The checks that enumerate every truncation of that message thereby also cut exactly the zero
    // bytes off a value / off the signal (an input a zero-extending reader would complete again).
    if let Some(r) = reqs.first_mut() {
        let one = BigUint::from(1u32);
        let mut e = r.e.big();
        for _ in 0..4000 {
            let a1 = crate::models::poseidon_ref::poseidon(&[r.s.big(), e.clone(), r.mid.big()]);
            let nf = crate::models::poseidon_ref::poseidon(&[a1]);
            if nf.bits() <= 248 {
                break;
            }
            e = (e + &one) % crate::models::field::p();
        }
        r.e = crate::models::field::Fx::from_big(&e);
        let mut sg = r.signal.expand();
        sg.truncate(900);
        sg.extend([0x5a, 0, 0, 0]);
        r.signal = Bytes::Lit(sg);
    }
    let mut rln = new_rln(DEPTH);
    let mut model = TreeModel::new(DEPTH, Fr::from(0u64));
    for r in &reqs {
        let rc = r.rate_commitment();
        set_leaf_big(&mut rln, r.index, &rc)?;
        model.set(r.index, crate::models::field::big_to_fr(&rc));
    }
    let root = fr_to_big(&model.root());
    if get_root_big(&rln) != root {
        return Err("pool: tree root differs from the ideal model (see C06)".into());
    }
    let mut msgs = vec![];
    for r in reqs {
        let mut out = vec![];
        match guarded(|| rln.generate_rln_proof(Cursor::new(r.encode()), &mut out).map_err(|e| e.to_string())) {
            Ok(Ok(())) => {}
            other => return Err(format!("pool: generate_rln_proof failed for a valid request {r:?}: {other:?}")),
        }
        if out.len() != 288 {
            return Err(format!("pool: message has {} bytes", out.len()));
        }
        let values = values_from_bytes(&out[128..])?;
        let want = expected_values(&r, &model);
        if values != want {
            // a message whose x is not the Keccak hash of its signal while everything else is as the
            // formulas say stays in the pool: whether a verifier may accept it is exactly what the
            // properties using the pool decide (with the reference hash); anything else is an oracle
            // problem and stops the run as inconclusive
            let x_only = values.x != want.x && values.root == want.root && values.e == want.e && values.nullifier == want.nullifier;
            if !x_only {
                return Err(format!("pool: published values differ from the formulas for {r:?} (see C04/C01)"));
            }
        }
        msgs.push(Golden { signal: r.signal.expand(), req: r, msg: out, values });
    }
    Ok(Pool { rln, model, root, msgs })
}

pub fn verify_input(msg: &[u8], signal: &[u8]) -> Vec<u8> {
    cr::enc_verify_input(msg, signal)
}

#[derive(Debug, Clone, PartialEq, Eq)]
pub enum V {
    True,
    False,
    Err(String),
    Panic(String),
}

impl V {
    pub fn is_true(&self) -> bool {
        matches!(self, V::True)
    }
}

fn tov(r: Result<Result<bool, String>, Panicked>) -> V {
    match r {
        Ok(Ok(true)) => V::True,
        Ok(Ok(false)) => V::False,
        Ok(Err(e)) => V::Err(e),
        Err(p) => V::Panic(p.0),
    }
}

thread_local! {
    /// verification calls are made by the interpreter's helper thread (a second long-lived thread of
    /// the same caller, taking turns with the one that proves and changes the tree)
    static VERIFY_ON_HELPER: std::cell::Cell<bool> = const { std::cell::Cell::new(false) };
}

/// set per case by the properties; returns the label to record
pub fn verify_on_second_thread(on: bool) {
    VERIFY_ON_HELPER.with(|c| c.set(on));
}

fn verifier_thread<R>(f: impl FnOnce() -> R) -> R {
    if VERIFY_ON_HELPER.with(|c| c.get()) {
        let io = gens::io_style();
        on_helper(|| {
            gens::set_io_style(io);
            f()
        })
    } else {
        f()
    }
}

pub fn call_verify(r: &RLN, input: &[u8]) -> V {
    verifier_thread(|| tov(guarded(|| r.verify(gens::rd(input)).map_err(|e| e.to_string()))))
}
pub fn call_verify_rln(r: &RLN, input: &[u8]) -> V {
    verifier_thread(|| tov(guarded(|| r.verify_rln_proof(gens::rd(input)).map_err(|e| e.to_string()))))
}
pub fn call_verify_roots(r: &RLN, input: &[u8], roots: &[u8]) -> V {
    verifier_thread(|| tov(guarded(|| r.verify_with_roots(gens::rd(input), gens::rd(roots)).map_err(|e| e.to_string()))))
}

/// Independent acceptability of a verification input derived from a golden message.
/// `current_root`: the verifier's tree root (None for root-set / raw verification);
/// `roots`: the root set bytes for verify_with_roots.
pub struct Accept {
    pub proof_and_values_identical: bool,
    pub signal_binds: bool,
    pub root_ok: bool,
    pub well_formed: bool,
}

impl Accept {
    pub fn acceptable(&self) -> bool {
        self.well_formed && self.proof_and_values_identical && self.signal_binds && self.root_ok
    }
}

pub enum Mode<'a> {
    Raw,
    Tree(&'a BigUint),
    Roots(&'a [u8]),
}

pub fn acceptability(g: &Golden, input: &[u8], mode: Mode) -> Accept {
    let mut a = Accept { proof_and_values_identical: false, signal_binds: false, root_ok: false, well_formed: false };
    if input.len() < 288 {
        return a;
    }
    a.proof_and_values_identical = input[..288] == g.msg[..];
    let carried_root = BigUint::from_bytes_le(&input[128..160]);
    let carried_x = BigUint::from_bytes_le(&input[192..224]);
    match mode {
        Mode::Raw => {
            a.well_formed = true;
            a.signal_binds = true;
            a.root_ok = true;
        }
        Mode::Tree(_) | Mode::Roots(_) => {
            if input.len() < 296 {
                return a;
            }
            let mut l = [0u8; 8];
            l.copy_from_slice(&input[288..296]);
            let len = u64::from_le_bytes(l);
            if len > (input.len() - 296) as u64 {
                return a;
            }
            a.well_formed = true;
            let signal = &input[296..296 + len as usize];
            a.signal_binds = formulas::hash_to_field_ref(signal) == carried_x;
            match mode {
                Mode::Tree(root) => a.root_ok = &carried_root == root,
                Mode::Roots(rb) => {
                    let roots: Vec<BigUint> = rb.chunks(32).filter(|c| c.len() == 32).map(|c| BigUint::from_bytes_le(c) % p()).collect();
                    a.root_ok = roots.is_empty() || roots.contains(&carried_root);
                }
                Mode::Raw => unreachable!(),
            }
        }
    }
    a
}

/// judge one verdict against the independent acceptability; returns a failure message
pub fn judge(what: &str, verdict: &V, acc: &Accept, panic_is_violation: bool) -> Option<String> {
    match verdict {
        V::True if !acc.acceptable() => Some(format!(
            "{what}: returned true although the input is not an accepted message (proof+values identical to the accepted message: {}, signal binds to x: {}, root condition: {}, well-formed: {})",
            acc.proof_and_values_identical, acc.signal_binds, acc.root_ok, acc.well_formed
        )),
        V::Panic(m) if panic_is_violation => Some(format!("{what}: panicked: {m}")),
        V::False | V::Err(_) | V::Panic(_) if acc.acceptable() => Some(format!("{what}: an accepted message was not accepted ({verdict:?})")),
        _ => None,
    }
}
